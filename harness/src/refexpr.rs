//! Reference semantics of the rfsm-expression language for the AST family (C10).
//! Independent of rFSM's parser: precedence climbing is replaced by explicit trees that are *rendered*
//! to text; the reference evaluates the tree.

use std::collections::BTreeMap;

#[derive(Clone, Debug, PartialEq)]
pub enum Op {
    Mul,
    Div,
    Mod,
    Add,
    Sub,
    Lt,
    Le,
    Gt,
    Ge,
    Eq,
    Ne,
    And,
    Or,
}

impl Op {
    pub fn text(&self) -> &'static str {
        match self {
            Op::Mul => "*",
            Op::Div => "/",
            Op::Mod => "%",
            Op::Add => "+",
            Op::Sub => "-",
            Op::Lt => "<",
            Op::Le => "<=",
            Op::Gt => ">",
            Op::Ge => ">=",
            Op::Eq => "==",
            Op::Ne => "!=",
            Op::And => "&",
            Op::Or => "|",
        }
    }
    /// documented precedence (smaller binds tighter): the table in src/expression_engine/parser.rs
    pub fn prec(&self) -> u8 {
        match self {
            Op::And | Op::Mul | Op::Div | Op::Mod => 5,
            Op::Or | Op::Add | Op::Sub => 6,
            Op::Lt | Op::Le | Op::Gt | Op::Ge => 9,
            Op::Eq | Op::Ne => 10,
        }
    }
    pub fn all() -> Vec<Op> {
        vec![
            Op::Mul,
            Op::Div,
            Op::Mod,
            Op::Add,
            Op::Sub,
            Op::Lt,
            Op::Le,
            Op::Gt,
            Op::Ge,
            Op::Eq,
            Op::Ne,
            Op::And,
            Op::Or,
        ]
    }
}

#[derive(Clone, Debug, PartialEq)]
pub enum Ast {
    Int(i64),
    Dbl(f64),
    Str(String),
    Bool(bool),
    Null,
    Var(String),
    ArrLit(Vec<Ast>),
    MapLit(Vec<(String, Ast)>),
    Bin(Op, Box<Ast>, Box<Ast>),
    Not(Box<Ast>),
    Member(Box<Ast>, String),
    Index(Box<Ast>, Box<Ast>),
    Assign(String, Box<Ast>),
    Init(String, Box<Ast>),
}

#[derive(Clone, Debug, PartialEq)]
pub enum RV {
    Int(i64),
    Dbl(f64),
    Str(String),
    Bool(bool),
    Null,
    Arr(Vec<RV>),
    Map(BTreeMap<String, RV>),
}

impl RV {
    pub fn show(&self) -> String {
        match self {
            RV::Int(i) => format!("I:{}", i),
            RV::Dbl(d) => {
                if d.is_nan() {
                    "D:NaN".into()
                } else {
                    format!("D:{:016x}", d.to_bits())
                }
            }
            RV::Str(s) => format!("S:{}", s),
            RV::Bool(b) => format!("B:{}", b),
            RV::Null => "N".into(),
            RV::Arr(a) => format!("[{}]", a.iter().map(|x| x.show()).collect::<Vec<_>>().join(",")),
            RV::Map(m) => format!(
                "{{{}}}",
                m.iter().map(|(k, v)| format!("{}:{}", k, v.show())).collect::<Vec<_>>().join(",")
            ),
        }
    }
    /// textual form used by '+' on strings (Display of Data)
    pub fn display(&self) -> Option<String> {
        match self {
            RV::Int(i) => Some(i.to_string()),
            RV::Dbl(d) => Some(format!("{}", d)),
            RV::Str(s) => Some(s.clone()),
            RV::Bool(b) => Some(b.to_string()),
            RV::Null => Some("null".into()),
            _ => None,
        }
    }
}

#[derive(Clone, Debug, PartialEq)]
pub enum Judg {
    Val(RV),
    /// the language defines this to be an error
    Error,
    /// the documentation does not define the result: no judgement
    Unjudged,
}

pub type Store = BTreeMap<String, RV>;

fn num(v: &RV) -> Option<f64> {
    match v {
        RV::Int(i) => Some(*i as f64),
        RV::Dbl(d) => Some(*d),
        _ => None,
    }
}

fn struct_eq(a: &RV, b: &RV) -> bool {
    match (a, b) {
        (RV::Int(x), RV::Int(y)) => x == y,
        (RV::Int(x), RV::Dbl(y)) | (RV::Dbl(y), RV::Int(x)) => (*x as f64) == *y,
        (RV::Dbl(x), RV::Dbl(y)) => x == y,
        (RV::Str(x), RV::Str(y)) => x == y,
        (RV::Bool(x), RV::Bool(y)) => x == y,
        (RV::Null, RV::Null) => true,
        (RV::Arr(x), RV::Arr(y)) => x.len() == y.len() && x.iter().zip(y.iter()).all(|(p, q)| struct_eq(p, q)),
        (RV::Map(x), RV::Map(y)) => {
            x.len() == y.len() && x.iter().all(|(k, v)| y.get(k).map(|w| struct_eq(v, w)).unwrap_or(false))
        }
        _ => false,
    }
}

pub fn apply(op: &Op, l: &RV, r: &RV) -> Judg {
    use Judg::*;
    match op {
        Op::Mul | Op::Sub => match (l, r) {
            (RV::Int(a), RV::Int(b)) => Val(RV::Int(if *op == Op::Mul {
                a.saturating_mul(*b)
            } else {
                a.saturating_sub(*b)
            })),
            _ => match (num(l), num(r)) {
                (Some(a), Some(b)) => Val(RV::Dbl(if *op == Op::Mul { a * b } else { a - b })),
                _ => {
                    if matches!(l, RV::Null) || matches!(r, RV::Null) {
                        Unjudged
                    } else {
                        Error
                    }
                }
            },
        },
        Op::Div => match (num(l), num(r)) {
            (Some(a), Some(b)) => {
                if b == 0.0 {
                    Unjudged
                } else {
                    Val(RV::Dbl(a / b))
                }
            }
            _ => {
                if matches!(l, RV::Null) || matches!(r, RV::Null) {
                    Unjudged
                } else {
                    Error
                }
            }
        },
        Op::Mod => match (l, r) {
            (RV::Int(a), RV::Int(b)) => {
                if *b == 0 || (*a == i64::MIN && *b == -1) {
                    Unjudged
                } else {
                    Val(RV::Int(a % b))
                }
            }
            _ => match (num(l), num(r)) {
                (Some(a), Some(b)) => {
                    if b == 0.0 {
                        Unjudged
                    } else {
                        Val(RV::Dbl(a % b))
                    }
                }
                _ => {
                    if matches!(l, RV::Null) || matches!(r, RV::Null) {
                        Unjudged
                    } else {
                        Error
                    }
                }
            },
        },
        Op::Add => match (l, r) {
            (RV::Int(a), RV::Int(b)) => Val(RV::Int(a.saturating_add(*b))),
            (RV::Int(_) | RV::Dbl(_), RV::Int(_) | RV::Dbl(_)) => Val(RV::Dbl(num(l).unwrap() + num(r).unwrap())),
            (RV::Str(a), x) => match x.display() {
                Some(d) => Val(RV::Str(format!("{}{}", a, d))),
                None => Unjudged,
            },
            (RV::Arr(a), RV::Arr(b)) => {
                let mut v = a.clone();
                v.extend(b.clone());
                Val(RV::Arr(v))
            }
            (RV::Arr(a), x) => {
                let mut v = a.clone();
                v.push(x.clone());
                Val(RV::Arr(v))
            }
            (x, RV::Str(b)) => match x.display() {
                Some(d) => Val(RV::Str(format!("{}{}", d, b))),
                None => Unjudged,
            },
            (RV::Map(a), RV::Map(b)) => {
                let mut m = a.clone();
                for (k, v) in b {
                    m.insert(k.clone(), v.clone());
                }
                Val(RV::Map(m))
            }
            _ => Unjudged,
        },
        Op::Lt | Op::Le | Op::Gt | Op::Ge => {
            let cmp = |o: std::cmp::Ordering| match op {
                Op::Lt => o == std::cmp::Ordering::Less,
                Op::Le => o != std::cmp::Ordering::Greater,
                Op::Gt => o == std::cmp::Ordering::Greater,
                _ => o != std::cmp::Ordering::Less,
            };
            match (l, r) {
                (RV::Int(_) | RV::Dbl(_), RV::Int(_) | RV::Dbl(_)) => {
                    match num(l).unwrap().partial_cmp(&num(r).unwrap()) {
                        Some(o) => Val(RV::Bool(cmp(o))),
                        None => Unjudged,
                    }
                }
                (RV::Str(a), RV::Str(b)) => Val(RV::Bool(cmp(a.cmp(b)))),
                _ => Unjudged,
            }
        }
        Op::Eq => Val(RV::Bool(struct_eq(l, r))),
        Op::Ne => Val(RV::Bool(!struct_eq(l, r))),
        Op::And | Op::Or => match (l, r) {
            (RV::Bool(a), RV::Bool(b)) => Val(RV::Bool(if *op == Op::And { *a && *b } else { *a || *b })),
            _ => Unjudged,
        },
    }
}

pub fn eval(a: &Ast, st: &mut Store, readonly: &[&str]) -> Judg {
    use Judg::*;
    match a {
        Ast::Int(i) => Val(RV::Int(*i)),
        Ast::Dbl(d) => Val(RV::Dbl(*d)),
        Ast::Str(s) => Val(RV::Str(s.clone())),
        Ast::Bool(b) => Val(RV::Bool(*b)),
        Ast::Null => Val(RV::Null),
        Ast::Var(v) => match st.get(v) {
            Some(x) => Val(x.clone()),
            None => Error,
        },
        Ast::ArrLit(items) => {
            let mut v = vec![];
            for i in items {
                match eval(i, st, readonly) {
                    Val(x) => v.push(x),
                    o => return o,
                }
            }
            Val(RV::Arr(v))
        }
        Ast::MapLit(items) => {
            let mut m = BTreeMap::new();
            for (k, i) in items {
                match eval(i, st, readonly) {
                    Val(x) => {
                        m.insert(k.clone(), x);
                    }
                    o => return o,
                }
            }
            Val(RV::Map(m))
        }
        Ast::Bin(op, l, r) => {
            // An erroneous operand makes arithmetic and boolean operators erroneous; what a comparison
            // of an erroneous operand yields is not documented (no judgement).
            let propagates = matches!(op, Op::Add | Op::Sub | Op::Mul | Op::Div | Op::Mod | Op::And | Op::Or);
            let lj = eval(l, st, readonly);
            let rj = eval(r, st, readonly);
            match (lj, rj) {
                (Val(lv), Val(rv)) => apply(op, &lv, &rv),
                (Unjudged, _) | (_, Unjudged) => Unjudged,
                _ => {
                    if propagates {
                        Error
                    } else {
                        Unjudged
                    }
                }
            }
        }
        Ast::Not(x) => match eval(x, st, readonly) {
            Val(RV::Bool(b)) => Val(RV::Bool(!b)),
            Val(_) => Error,
            o => o,
        },
        Ast::Member(x, name) => match eval(x, st, readonly) {
            Val(RV::Map(m)) => match m.get(name) {
                Some(v) => Val(v.clone()),
                None => Error,
            },
            Val(_) => Error,
            o => o,
        },
        Ast::Index(x, i) => {
            let xv = match eval(x, st, readonly) {
                Val(v) => v,
                o => return o,
            };
            let iv = match eval(i, st, readonly) {
                Val(v) => v,
                o => return o,
            };
            match (xv, iv) {
                (RV::Arr(a), RV::Int(k)) => {
                    if k >= 0 && (k as usize) < a.len() {
                        Val(a[k as usize].clone())
                    } else if k < 0 {
                        Unjudged
                    } else {
                        Error
                    }
                }
                (RV::Map(m), RV::Str(k)) => match m.get(&k) {
                    Some(v) => Val(v.clone()),
                    None => Error,
                },
                (RV::Arr(_), _) | (RV::Map(_), _) => Unjudged,
                _ => Error,
            }
        }
        Ast::Assign(name, x) => {
            let v = match eval(x, st, readonly) {
                Val(v) => v,
                o => return o,
            };
            if !st.contains_key(name) || readonly.contains(&name.as_str()) {
                return Error;
            }
            st.insert(name.clone(), v.clone());
            Val(v)
        }
        Ast::Init(name, x) => {
            let v = match eval(x, st, readonly) {
                Val(v) => v,
                o => return o,
            };
            if readonly.contains(&name.as_str()) {
                return Unjudged;
            }
            st.insert(name.clone(), v.clone());
            Val(v)
        }
    }
}

#[derive(Clone, Copy, Debug, PartialEq)]
pub enum Style {
    /// minimal parentheses, single spaces around binary operators
    Plain,
    /// minimal parentheses, no spaces where the documented lexical grammar allows it
    Tight,
    /// every operator node parenthesised, generous whitespace
    Redundant,
}

fn lit(a: &Ast) -> Option<String> {
    Some(match a {
        Ast::Int(i) => i.to_string(),
        Ast::Dbl(d) => format!("{:?}", d),
        Ast::Str(s) => format!("'{}'", s),
        Ast::Bool(b) => b.to_string(),
        Ast::Null => "null".into(),
        Ast::Var(v) => v.clone(),
        _ => return None,
    })
}

pub fn render(a: &Ast, style: Style) -> String {
    let sp = |op: &str| -> String {
        match style {
            Style::Plain => format!(" {} ", op),
            Style::Redundant => format!("  {}\t", op),
            Style::Tight => op.to_string(),
        }
    };
    match a {
        Ast::Bin(op, l, r) => {
            let wrap_l = match &**l {
                Ast::Bin(lo, _, _) => lo.prec() > op.prec(),
                Ast::Assign(..) | Ast::Init(..) => true,
                _ => false,
            };
            let wrap_r = match &**r {
                Ast::Bin(ro, _, _) => ro.prec() >= op.prec(),
                Ast::Assign(..) | Ast::Init(..) => true,
                _ => false,
            };
            let ls = render(l, style);
            let rs = render(r, style);
            let ls = if wrap_l || (style == Style::Redundant && matches!(**l, Ast::Bin(..))) {
                format!("({})", ls)
            } else {
                ls
            };
            let rs = if wrap_r || (style == Style::Redundant && matches!(**r, Ast::Bin(..))) {
                format!("({})", rs)
            } else {
                rs
            };
            // '-' directly before a digit or '.' is part of a number in the documented grammar, so that
            // whitespace is not incidental
            let sep = if style == Style::Tight && *op == Op::Sub && rs.starts_with(|c: char| c.is_ascii_digit() || c == '.' || c == '-') {
                " - ".to_string()
            } else {
                sp(op.text())
            };
            let body = format!("{}{}{}", ls, sep, rs);
            body
        }
        Ast::Not(x) => {
            let xs = render(x, style);
            match &**x {
                Ast::Bin(..) | Ast::Assign(..) | Ast::Init(..) => format!("!({})", xs),
                _ => {
                    if style == Style::Redundant {
                        format!("! {}", xs)
                    } else {
                        format!("!{}", xs)
                    }
                }
            }
        }
        Ast::ArrLit(items) => format!(
            "[{}]",
            items
                .iter()
                .map(|i| render(i, style))
                .collect::<Vec<_>>()
                .join(if style == Style::Tight { "," } else { ", " })
        ),
        Ast::MapLit(items) => format!(
            "{{{}}}",
            items
                .iter()
                .map(|(k, v)| format!("'{}':{}", k, render(v, style)))
                .collect::<Vec<_>>()
                .join(if style == Style::Tight { "," } else { ", " })
        ),
        Ast::Member(x, n) => {
            let xs = render(x, style);
            match &**x {
                Ast::Var(_) | Ast::Member(..) | Ast::Index(..) | Ast::MapLit(_) => format!("{}.{}", xs, n),
                _ => format!("({}).{}", xs, n),
            }
        }
        Ast::Index(x, i) => {
            let xs = render(x, style);
            let is = render(i, style);
            match &**x {
                Ast::Var(_) | Ast::Member(..) | Ast::Index(..) | Ast::ArrLit(_) | Ast::MapLit(_) => format!("{}[{}]", xs, is),
                _ => format!("({})[{}]", xs, is),
            }
        }
        Ast::Assign(n, x) => format!("{}{}{}", n, sp("="), render(x, style)),
        Ast::Init(n, x) => format!("{}{}{}", n, sp("?="), render(x, style)),
        other => {
            let l = lit(other).unwrap();
            if style == Style::Redundant && !matches!(other, Ast::Var(_)) {
                format!("({})", l)
            } else {
                l
            }
        }
    }
}

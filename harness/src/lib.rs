pub mod doc;
pub mod expect;
pub mod explore;
pub mod gen;
pub mod infra;
pub mod rec;
pub mod refexpr;
pub mod refint;
pub mod runner;
pub mod xmlrender;
pub mod dump;

#[cfg(rufsm_verif)]
pub mod sched;

pub mod doc;
pub mod explore;
pub mod gen;
pub mod infra;
pub mod rec;
pub mod refexpr;
pub mod refint;
pub mod runner;

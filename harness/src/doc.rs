//! Document tree used by the generators, the XML renderer and the reference interpreter.
//! Node index order == document order (pre-order).


pub type Nx = usize;

#[derive(Clone, Debug, PartialEq, Eq, Hash)]
pub enum Kind {
    Root,
    State,
    Parallel,
    Final,
    HistShallow,
    HistDeep,
}

impl Kind {
    pub fn is_history(&self) -> bool {
        matches!(self, Kind::HistShallow | Kind::HistDeep)
    }
}

/// Expression subset understood by the reference interpreter. Rendered as rfsm-expression text.
#[derive(Clone, Debug, PartialEq, Eq, Hash)]
pub enum Expr {
    Int(i64),
    Str(String),
    Bool(bool),
    Var(String),
    /// v + k
    VarPlus(String, i64),
    /// v == k
    VarEq(String, i64),
    /// v < k
    VarLt(String, i64),
    In(String),
    NotIn(String),
    /// evaluation error: reference to an undeclared variable
    Bad,
    /// syntax error
    BadSyntax,
    EvName,
    /// _event.name == 'x'
    EvNameEq(String),
    /// _event.data.<p>
    EvData(String),
    /// array literal of ints
    Arr(Vec<i64>),
    /// raw text, reference can not evaluate (used only where the reference does not need the value)
    Raw(String),
}

impl Expr {
    pub fn render(&self) -> String {
        match self {
            Expr::Int(i) => format!("{}", i),
            Expr::Str(s) => format!("'{}'", s),
            Expr::Bool(b) => format!("{}", b),
            Expr::Var(v) => v.clone(),
            Expr::VarPlus(v, k) => format!("{} + {}", v, k),
            Expr::VarEq(v, k) => format!("{} == {}", v, k),
            Expr::VarLt(v, k) => format!("{} < {}", v, k),
            Expr::In(s) => format!("In('{}')", s),
            Expr::NotIn(s) => format!("!In('{}')", s),
            Expr::Bad => "undefq + 1".to_string(),
            Expr::BadSyntax => "1 + * )".to_string(),
            Expr::EvName => "_event.name".to_string(),
            Expr::EvNameEq(s) => format!("_event.name == '{}'", s),
            Expr::EvData(p) => format!("_event.data.{}", p),
            Expr::Arr(v) => format!(
                "[{}]",
                v.iter().map(|x| x.to_string()).collect::<Vec<_>>().join(",")
            ),
            Expr::Raw(s) => s.clone(),
        }
    }
}

#[derive(Clone, Debug, PartialEq, Eq, Hash)]
pub enum Stmt {
    /// mark('a','b',..) : records its (string) arguments; extra expression args are evaluated.
    Mark(Vec<String>),
    /// mark with one evaluated argument appended
    MarkE(Vec<String>, Expr),
    Raise(String),
    /// send to own internal queue through the SCXML processor (target="#_internal")
    SendInternal(String),
    /// send to own external queue (no target)
    SendSelf(String),
    /// <send target="#_internal" eventexpr=..>: the event name is computed (or fails to evaluate)
    SendInternalExpr(Expr),
    If {
        branches: Vec<(Expr, Vec<Stmt>)>,
        els: Option<Vec<Stmt>>,
    },
    Foreach {
        array: Expr,
        item: String,
        index: Option<String>,
        body: Vec<Stmt>,
    },
    Assign(String, Expr),
    Log(Expr),
    Script(Expr),
    /// raw XML, opaque for the reference
    RawXml(String),
    /// general send (opaque for the reference)
    SendX(SendSpec),
    /// <cancel sendid=.. | sendidexpr=..>
    CancelX { sendid: Option<String>, sendidexpr: Option<String> },
    /// <script> with arbitrary text content (character data after XML decoding)
    ScriptText(String),
    /// <assign location=..>text</assign>
    AssignText(String, String),
    /// <log label=.. expr=..>
    LogL(String, String),
}

pub type Block = Vec<Stmt>;

#[derive(Clone, Debug, PartialEq, Eq, Hash, Default)]
pub struct ParamSpec {
    pub name: String,
    pub expr: Option<String>,
    pub location: Option<String>,
}

#[derive(Clone, Debug, PartialEq, Eq, Hash, Default)]
pub struct ContentSpec {
    pub expr: Option<String>,
    /// text content (character data after XML decoding)
    pub text: Option<String>,
}

/// general <send>: attributes as (name, value-after-XML-decoding)
#[derive(Clone, Debug, PartialEq, Eq, Hash, Default)]
pub struct SendSpec {
    pub attrs: Vec<(String, String)>,
    pub params: Vec<ParamSpec>,
    pub content: Option<ContentSpec>,
}

#[derive(Clone, Debug, PartialEq, Eq, Hash, Default)]
pub struct InvokeSpec {
    pub attrs: Vec<(String, String)>,
    pub params: Vec<ParamSpec>,
    pub content: Option<ContentSpec>,
    pub finalize: Option<Block>,
}

#[derive(Clone, Debug, PartialEq, Eq, Hash)]
pub struct Trans {
    pub events: Vec<String>,
    pub cond: Option<Expr>,
    pub targets: Vec<Nx>,
    pub internal: bool,
    pub content: Block,
}

#[derive(Clone, Debug, PartialEq, Eq, Hash, Default)]
pub struct DoneData {
    pub params: Vec<(String, Expr)>,
    pub content: Option<Expr>,
}

#[derive(Clone, Debug, PartialEq, Eq, Hash)]
pub struct Node {
    pub name: String,
    pub kind: Kind,
    pub parent: Option<Nx>,
    pub children: Vec<Nx>,
    pub initial_attr: Option<Vec<Nx>>,
    pub initial_elem: Option<(Vec<Nx>, Block)>,
    pub onentry: Vec<Block>,
    pub onexit: Vec<Block>,
    pub trans: Vec<Trans>,
    pub data: Vec<(String, Option<Expr>)>,
    pub donedata: Option<DoneData>,
    /// raw XML children appended verbatim (invoke etc.), opaque for the reference
    pub raw_children: Vec<String>,
    pub invokes: Vec<InvokeSpec>,
    /// <data id>text</data> declarations: (id, character data)
    pub data_text: Vec<(String, String)>,
}

#[derive(Clone, Debug, PartialEq, Eq, Hash)]
pub struct Doc {
    pub nodes: Vec<Node>,
    pub datamodel: String,
    pub late_binding: bool,
    pub name: String,
    /// global <script> content
    pub script: Option<Expr>,
}

impl Doc {
    pub fn new() -> Doc {
        Doc {
            nodes: vec![Node {
                name: "__root".into(),
                kind: Kind::Root,
                parent: None,
                children: vec![],
                initial_attr: None,
                initial_elem: None,
                onentry: vec![],
                onexit: vec![],
                trans: vec![],
                data: vec![],
                donedata: None,
                raw_children: vec![],
                invokes: vec![],
                data_text: vec![],
            }],
            datamodel: "rfsm-expression".into(),
            late_binding: false,
            name: "doc".into(),
            script: None,
        }
    }

    /// Nodes must be added in document order (parent before child, siblings left to right, and a
    /// subtree must be complete before the next sibling is added).
    pub fn add(&mut self, parent: Nx, name: &str, kind: Kind) -> Nx {
        let ix = self.nodes.len();
        self.nodes.push(Node {
            name: name.to_string(),
            kind,
            parent: Some(parent),
            children: vec![],
            initial_attr: None,
            initial_elem: None,
            onentry: vec![],
            onexit: vec![],
            trans: vec![],
            data: vec![],
            donedata: None,
            raw_children: vec![],
            invokes: vec![],
            data_text: vec![],
        });
        self.nodes[parent].children.push(ix);
        ix
    }

    pub fn by_name(&self, name: &str) -> Option<Nx> {
        self.nodes.iter().position(|n| n.name == name)
    }

    pub fn is_history(&self, n: Nx) -> bool {
        self.nodes[n].kind.is_history()
    }

    /// child states (no history pseudo states)
    pub fn child_states(&self, n: Nx) -> Vec<Nx> {
        self.nodes[n]
            .children
            .iter()
            .cloned()
            .filter(|c| !self.is_history(*c))
            .collect()
    }

    pub fn history_children(&self, n: Nx) -> Vec<Nx> {
        self.nodes[n]
            .children
            .iter()
            .cloned()
            .filter(|c| self.is_history(*c))
            .collect()
    }

    pub fn is_atomic(&self, n: Nx) -> bool {
        !self.is_history(n) && self.child_states(n).is_empty() && self.nodes[n].kind != Kind::Root
    }

    pub fn is_compound(&self, n: Nx) -> bool {
        self.nodes[n].kind == Kind::State && !self.child_states(n).is_empty()
    }

    pub fn is_parallel(&self, n: Nx) -> bool {
        self.nodes[n].kind == Kind::Parallel
    }

    pub fn is_final(&self, n: Nx) -> bool {
        self.nodes[n].kind == Kind::Final
    }

    /// proper descendant test
    pub fn is_descendant(&self, a: Nx, of: Nx) -> bool {
        let mut c = self.nodes[a].parent;
        while let Some(p) = c {
            if p == of {
                return true;
            }
            c = self.nodes[p].parent;
        }
        false
    }

    /// proper ancestors, innermost first, up to and including root
    pub fn ancestors(&self, a: Nx) -> Vec<Nx> {
        let mut v = vec![];
        let mut c = self.nodes[a].parent;
        while let Some(p) = c {
            v.push(p);
            c = self.nodes[p].parent;
        }
        v
    }

    pub fn descendants(&self, a: Nx) -> Vec<Nx> {
        (0..self.nodes.len())
            .filter(|x| self.is_descendant(*x, a))
            .collect()
    }

    /// The (effective) default initial targets of a compound state or the root.
    pub fn initial_targets(&self, n: Nx) -> Vec<Nx> {
        let node = &self.nodes[n];
        if let Some(t) = &node.initial_attr {
            return t.clone();
        }
        if let Some((t, _)) = &node.initial_elem {
            return t.clone();
        }
        match self.child_states(n).first() {
            Some(c) => vec![*c],
            None => vec![],
        }
    }

    /// Legal state specification test for a target set (W3C 3.11): after adding ancestors and default
    /// completion the result must be a legal configuration. We use the sufficient structural
    /// condition: for every pair of targets, neither is a descendant of the other (except through
    /// identity) and their least common ancestor is a parallel state.
    pub fn legal_target_set(&self, targets: &[Nx]) -> bool {
        for (i, a) in targets.iter().enumerate() {
            for b in targets.iter().skip(i + 1) {
                if a == b || self.is_descendant(*a, *b) || self.is_descendant(*b, *a) {
                    return false;
                }
                // lowest common ancestor
                let aa = self.ancestors(*a);
                let ab = self.ancestors(*b);
                let lca = aa.iter().find(|x| ab.contains(x));
                match lca {
                    Some(l) => {
                        if !self.is_parallel(*l) {
                            return false;
                        }
                    }
                    None => return false,
                }
            }
        }
        true
    }

    pub fn events(&self) -> Vec<String> {
        let mut v: Vec<String> = vec![];
        for n in &self.nodes {
            for t in &n.trans {
                for e in &t.events {
                    if !v.contains(e) {
                        v.push(e.clone());
                    }
                }
            }
        }
        v
    }

    // ---------------------------------------------------------------- XML

    pub fn to_xml(&self) -> String {
        crate::xmlrender::serialize(&crate::xmlrender::doc_to_tree(self), &crate::xmlrender::Lex::default())
    }
}

impl Default for Doc {
    fn default() -> Self {
        Doc::new()
    }
}

pub fn mark_src(args: &[String], extra: Option<&Expr>) -> String {
    let mut a: Vec<String> = args.iter().map(|x| format!("'{}'", x)).collect();
    if let Some(e) = extra {
        a.push(e.render());
    }
    format!("mark({})", a.join(","))
}

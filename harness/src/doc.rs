//! Document tree used by the generators, the XML renderer and the reference interpreter.
//! Node index order == document order (pre-order).

use std::fmt::Write;

pub type Nx = usize;

#[derive(Clone, Debug, PartialEq, Eq, Hash)]
pub enum Kind {
    Root,
    State,
    Parallel,
    Final,
    HistShallow,
    HistDeep,
}

impl Kind {
    pub fn is_history(&self) -> bool {
        matches!(self, Kind::HistShallow | Kind::HistDeep)
    }
}

/// Expression subset understood by the reference interpreter. Rendered as rfsm-expression text.
#[derive(Clone, Debug, PartialEq, Eq, Hash)]
pub enum Expr {
    Int(i64),
    Str(String),
    Bool(bool),
    Var(String),
    /// v + k
    VarPlus(String, i64),
    /// v == k
    VarEq(String, i64),
    /// v < k
    VarLt(String, i64),
    In(String),
    NotIn(String),
    /// evaluation error: reference to an undeclared variable
    Bad,
    /// syntax error
    BadSyntax,
    EvName,
    /// _event.name == 'x'
    EvNameEq(String),
    /// _event.data.<p>
    EvData(String),
    /// array literal of ints
    Arr(Vec<i64>),
    /// raw text, reference can not evaluate (used only where the reference does not need the value)
    Raw(String),
}

impl Expr {
    pub fn render(&self) -> String {
        match self {
            Expr::Int(i) => format!("{}", i),
            Expr::Str(s) => format!("'{}'", s),
            Expr::Bool(b) => format!("{}", b),
            Expr::Var(v) => v.clone(),
            Expr::VarPlus(v, k) => format!("{} + {}", v, k),
            Expr::VarEq(v, k) => format!("{} == {}", v, k),
            Expr::VarLt(v, k) => format!("{} < {}", v, k),
            Expr::In(s) => format!("In('{}')", s),
            Expr::NotIn(s) => format!("!In('{}')", s),
            Expr::Bad => "undefq + 1".to_string(),
            Expr::BadSyntax => "1 + * )".to_string(),
            Expr::EvName => "_event.name".to_string(),
            Expr::EvNameEq(s) => format!("_event.name == '{}'", s),
            Expr::EvData(p) => format!("_event.data.{}", p),
            Expr::Arr(v) => format!(
                "[{}]",
                v.iter().map(|x| x.to_string()).collect::<Vec<_>>().join(",")
            ),
            Expr::Raw(s) => s.clone(),
        }
    }
}

#[derive(Clone, Debug, PartialEq, Eq, Hash)]
pub enum Stmt {
    /// mark('a','b',..) : records its (string) arguments; extra expression args are evaluated.
    Mark(Vec<String>),
    /// mark with one evaluated argument appended
    MarkE(Vec<String>, Expr),
    Raise(String),
    /// send to own internal queue through the SCXML processor (target="#_internal")
    SendInternal(String),
    /// send to own external queue (no target)
    SendSelf(String),
    If {
        branches: Vec<(Expr, Vec<Stmt>)>,
        els: Option<Vec<Stmt>>,
    },
    Foreach {
        array: Expr,
        item: String,
        index: Option<String>,
        body: Vec<Stmt>,
    },
    Assign(String, Expr),
    Log(Expr),
    Script(Expr),
    /// raw XML, opaque for the reference
    RawXml(String),
}

pub type Block = Vec<Stmt>;

#[derive(Clone, Debug, PartialEq, Eq, Hash)]
pub struct Trans {
    pub events: Vec<String>,
    pub cond: Option<Expr>,
    pub targets: Vec<Nx>,
    pub internal: bool,
    pub content: Block,
}

#[derive(Clone, Debug, PartialEq, Eq, Hash, Default)]
pub struct DoneData {
    pub params: Vec<(String, Expr)>,
    pub content: Option<Expr>,
}

#[derive(Clone, Debug, PartialEq, Eq, Hash)]
pub struct Node {
    pub name: String,
    pub kind: Kind,
    pub parent: Option<Nx>,
    pub children: Vec<Nx>,
    pub initial_attr: Option<Vec<Nx>>,
    pub initial_elem: Option<(Vec<Nx>, Block)>,
    pub onentry: Vec<Block>,
    pub onexit: Vec<Block>,
    pub trans: Vec<Trans>,
    pub data: Vec<(String, Option<Expr>)>,
    pub donedata: Option<DoneData>,
    /// raw XML children appended verbatim (invoke etc.), opaque for the reference
    pub raw_children: Vec<String>,
}

#[derive(Clone, Debug, PartialEq, Eq, Hash)]
pub struct Doc {
    pub nodes: Vec<Node>,
    pub datamodel: String,
    pub late_binding: bool,
    pub name: String,
    /// global <script> content
    pub script: Option<Expr>,
}

impl Doc {
    pub fn new() -> Doc {
        Doc {
            nodes: vec![Node {
                name: "__root".into(),
                kind: Kind::Root,
                parent: None,
                children: vec![],
                initial_attr: None,
                initial_elem: None,
                onentry: vec![],
                onexit: vec![],
                trans: vec![],
                data: vec![],
                donedata: None,
                raw_children: vec![],
            }],
            datamodel: "rfsm-expression".into(),
            late_binding: false,
            name: "doc".into(),
            script: None,
        }
    }

    /// Nodes must be added in document order (parent before child, siblings left to right, and a
    /// subtree must be complete before the next sibling is added).
    pub fn add(&mut self, parent: Nx, name: &str, kind: Kind) -> Nx {
        let ix = self.nodes.len();
        self.nodes.push(Node {
            name: name.to_string(),
            kind,
            parent: Some(parent),
            children: vec![],
            initial_attr: None,
            initial_elem: None,
            onentry: vec![],
            onexit: vec![],
            trans: vec![],
            data: vec![],
            donedata: None,
            raw_children: vec![],
        });
        self.nodes[parent].children.push(ix);
        ix
    }

    pub fn by_name(&self, name: &str) -> Option<Nx> {
        self.nodes.iter().position(|n| n.name == name)
    }

    pub fn is_history(&self, n: Nx) -> bool {
        self.nodes[n].kind.is_history()
    }

    /// child states (no history pseudo states)
    pub fn child_states(&self, n: Nx) -> Vec<Nx> {
        self.nodes[n]
            .children
            .iter()
            .cloned()
            .filter(|c| !self.is_history(*c))
            .collect()
    }

    pub fn history_children(&self, n: Nx) -> Vec<Nx> {
        self.nodes[n]
            .children
            .iter()
            .cloned()
            .filter(|c| self.is_history(*c))
            .collect()
    }

    pub fn is_atomic(&self, n: Nx) -> bool {
        !self.is_history(n) && self.child_states(n).is_empty() && self.nodes[n].kind != Kind::Root
    }

    pub fn is_compound(&self, n: Nx) -> bool {
        self.nodes[n].kind == Kind::State && !self.child_states(n).is_empty()
    }

    pub fn is_parallel(&self, n: Nx) -> bool {
        self.nodes[n].kind == Kind::Parallel
    }

    pub fn is_final(&self, n: Nx) -> bool {
        self.nodes[n].kind == Kind::Final
    }

    /// proper descendant test
    pub fn is_descendant(&self, a: Nx, of: Nx) -> bool {
        let mut c = self.nodes[a].parent;
        while let Some(p) = c {
            if p == of {
                return true;
            }
            c = self.nodes[p].parent;
        }
        false
    }

    /// proper ancestors, innermost first, up to and including root
    pub fn ancestors(&self, a: Nx) -> Vec<Nx> {
        let mut v = vec![];
        let mut c = self.nodes[a].parent;
        while let Some(p) = c {
            v.push(p);
            c = self.nodes[p].parent;
        }
        v
    }

    pub fn descendants(&self, a: Nx) -> Vec<Nx> {
        (0..self.nodes.len())
            .filter(|x| self.is_descendant(*x, a))
            .collect()
    }

    /// The (effective) default initial targets of a compound state or the root.
    pub fn initial_targets(&self, n: Nx) -> Vec<Nx> {
        let node = &self.nodes[n];
        if let Some(t) = &node.initial_attr {
            return t.clone();
        }
        if let Some((t, _)) = &node.initial_elem {
            return t.clone();
        }
        match self.child_states(n).first() {
            Some(c) => vec![*c],
            None => vec![],
        }
    }

    /// Legal state specification test for a target set (W3C 3.11): after adding ancestors and default
    /// completion the result must be a legal configuration. We use the sufficient structural
    /// condition: for every pair of targets, neither is a descendant of the other (except through
    /// identity) and their least common ancestor is a parallel state.
    pub fn legal_target_set(&self, targets: &[Nx]) -> bool {
        for (i, a) in targets.iter().enumerate() {
            for b in targets.iter().skip(i + 1) {
                if a == b || self.is_descendant(*a, *b) || self.is_descendant(*b, *a) {
                    return false;
                }
                // lowest common ancestor
                let aa = self.ancestors(*a);
                let ab = self.ancestors(*b);
                let lca = aa.iter().find(|x| ab.contains(x));
                match lca {
                    Some(l) => {
                        if !self.is_parallel(*l) {
                            return false;
                        }
                    }
                    None => return false,
                }
            }
        }
        true
    }

    pub fn events(&self) -> Vec<String> {
        let mut v: Vec<String> = vec![];
        for n in &self.nodes {
            for t in &n.trans {
                for e in &t.events {
                    if !v.contains(e) {
                        v.push(e.clone());
                    }
                }
            }
        }
        v
    }

    // ---------------------------------------------------------------- XML

    pub fn to_xml(&self) -> String {
        let mut s = String::new();
        let root = &self.nodes[0];
        write!(
            s,
            "<scxml xmlns=\"http://www.w3.org/2005/07/scxml\" version=\"1.0\" datamodel=\"{}\" name=\"{}\"",
            self.datamodel, xml_attr(&self.name)
        )
        .unwrap();
        if self.late_binding {
            s.push_str(" binding=\"late\"");
        }
        if let Some(t) = &root.initial_attr {
            write!(s, " initial=\"{}\"", self.names(t)).unwrap();
        }
        s.push_str(">\n");
        self.render_data(&mut s, root);
        if let Some(sc) = &self.script {
            write!(s, "<script>{}</script>\n", sc.render()).unwrap();
        }
        for r in &root.raw_children {
            s.push_str(r);
            s.push('\n');
        }
        for c in &root.children {
            self.render_node(&mut s, *c, 1);
        }
        s.push_str("</scxml>\n");
        s
    }

    fn names(&self, t: &[Nx]) -> String {
        t.iter()
            .map(|x| self.nodes[*x].name.clone())
            .collect::<Vec<_>>()
            .join(" ")
    }

    fn render_data(&self, s: &mut String, node: &Node) {
        if !node.data.is_empty() {
            s.push_str("<datamodel>");
            for (id, e) in &node.data {
                match e {
                    Some(e) => write!(s, "<data id=\"{}\" expr=\"{}\"/>", id, xml_attr(&e.render())).unwrap(),
                    None => write!(s, "<data id=\"{}\"/>", id).unwrap(),
                }
            }
            s.push_str("</datamodel>\n");
        }
    }

    fn render_node(&self, s: &mut String, n: Nx, depth: usize) {
        let node = &self.nodes[n];
        let ind = " ".repeat(depth);
        let tag = match node.kind {
            Kind::Root => unreachable!(),
            Kind::State => "state",
            Kind::Parallel => "parallel",
            Kind::Final => "final",
            Kind::HistShallow | Kind::HistDeep => "history",
        };
        write!(s, "{}<{} id=\"{}\"", ind, tag, xml_attr(&node.name)).unwrap();
        match node.kind {
            Kind::HistDeep => s.push_str(" type=\"deep\""),
            Kind::HistShallow => s.push_str(" type=\"shallow\""),
            _ => {}
        }
        if let Some(t) = &node.initial_attr {
            write!(s, " initial=\"{}\"", self.names(t)).unwrap();
        }
        s.push_str(">\n");
        self.render_data(s, node);
        if let Some((t, b)) = &node.initial_elem {
            write!(s, "{} <initial><transition target=\"{}\">", ind, self.names(t)).unwrap();
            render_block(s, b);
            s.push_str("</transition></initial>\n");
        }
        for b in &node.onentry {
            write!(s, "{} <onentry>", ind).unwrap();
            render_block(s, b);
            s.push_str("</onentry>\n");
        }
        for b in &node.onexit {
            write!(s, "{} <onexit>", ind).unwrap();
            render_block(s, b);
            s.push_str("</onexit>\n");
        }
        for t in &node.trans {
            write!(s, "{} <transition", ind).unwrap();
            if !t.events.is_empty() {
                write!(s, " event=\"{}\"", xml_attr(&t.events.join(" "))).unwrap();
            }
            if let Some(c) = &t.cond {
                write!(s, " cond=\"{}\"", xml_attr(&c.render())).unwrap();
            }
            if !t.targets.is_empty() {
                write!(s, " target=\"{}\"", self.names(&t.targets)).unwrap();
            }
            if t.internal {
                s.push_str(" type=\"internal\"");
            }
            if t.content.is_empty() {
                s.push_str("/>\n");
            } else {
                s.push('>');
                render_block(s, &t.content);
                s.push_str("</transition>\n");
            }
        }
        if let Some(dd) = &node.donedata {
            s.push_str("<donedata>");
            if let Some(c) = &dd.content {
                write!(s, "<content expr=\"{}\"/>", xml_attr(&c.render())).unwrap();
            }
            for (n, e) in &dd.params {
                write!(s, "<param name=\"{}\" expr=\"{}\"/>", n, xml_attr(&e.render())).unwrap();
            }
            s.push_str("</donedata>\n");
        }
        for r in &node.raw_children {
            s.push_str(r);
            s.push('\n');
        }
        for c in &node.children {
            self.render_node(s, *c, depth + 1);
        }
        write!(s, "{}</{}>\n", ind, tag).unwrap();
    }
}

impl Default for Doc {
    fn default() -> Self {
        Doc::new()
    }
}

pub fn xml_attr(v: &str) -> String {
    v.replace('&', "&amp;")
        .replace('<', "&lt;")
        .replace('>', "&gt;")
        .replace('"', "&quot;")
}

pub fn render_block(s: &mut String, b: &Block) {
    for st in b {
        render_stmt(s, st);
    }
}

pub fn mark_src(args: &[String], extra: Option<&Expr>) -> String {
    let mut a: Vec<String> = args.iter().map(|x| format!("'{}'", x)).collect();
    if let Some(e) = extra {
        a.push(e.render());
    }
    format!("mark({})", a.join(","))
}

fn render_stmt(s: &mut String, st: &Stmt) {
    match st {
        // Script text is taken raw by the reader (no entity decoding), so only plain characters here.
        Stmt::Mark(args) => write!(s, "<script>{}</script>", mark_src(args, None)).unwrap(),
        Stmt::MarkE(args, e) => {
            // goes through an attribute, so it can contain any character
            write!(s, "<log expr=\"{}\"/>", xml_attr(&mark_src(args, Some(e)))).unwrap()
        }
        Stmt::Raise(e) => write!(s, "<raise event=\"{}\"/>", xml_attr(e)).unwrap(),
        Stmt::SendInternal(e) => write!(s, "<send event=\"{}\" target=\"#_internal\"/>", xml_attr(e)).unwrap(),
        Stmt::SendSelf(e) => write!(s, "<send event=\"{}\"/>", xml_attr(e)).unwrap(),
        Stmt::If { branches, els } => {
            for (i, (c, b)) in branches.iter().enumerate() {
                if i == 0 {
                    write!(s, "<if cond=\"{}\">", xml_attr(&c.render())).unwrap();
                } else {
                    write!(s, "<elseif cond=\"{}\"/>", xml_attr(&c.render())).unwrap();
                }
                render_block(s, b);
            }
            if let Some(b) = els {
                s.push_str("<else/>");
                render_block(s, b);
            }
            s.push_str("</if>");
        }
        Stmt::Foreach {
            array,
            item,
            index,
            body,
        } => {
            write!(s, "<foreach array=\"{}\" item=\"{}\"", xml_attr(&array.render()), item).unwrap();
            if let Some(ix) = index {
                write!(s, " index=\"{}\"", ix).unwrap();
            }
            s.push('>');
            render_block(s, body);
            s.push_str("</foreach>");
        }
        Stmt::Assign(loc, e) => write!(
            s,
            "<assign location=\"{}\" expr=\"{}\"/>",
            xml_attr(loc),
            xml_attr(&e.render())
        )
        .unwrap(),
        Stmt::Log(e) => write!(s, "<log expr=\"{}\"/>", xml_attr(&e.render())).unwrap(),
        Stmt::Script(e) => {
            // attribute-free: raw text; callers must only use plain characters
            write!(s, "<script>{}</script>", e.render()).unwrap()
        }
        Stmt::RawXml(x) => s.push_str(x),
    }
}

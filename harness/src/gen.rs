//! Exhaustive statechart generators (the "programs" quantifier).

use crate::doc::*;

#[derive(Clone, Debug, PartialEq, Eq)]
pub enum K {
    S,
    P,
    F,
}

#[derive(Clone, Debug, PartialEq, Eq)]
pub struct Tree {
    pub kind: K,
    pub children: Vec<Tree>,
}

/// all ordered forests with exactly n nodes (kinds all S)
pub fn forests(n: usize) -> Vec<Vec<Tree>> {
    if n == 0 {
        return vec![vec![]];
    }
    let mut out = vec![];
    // first tree has k nodes (1..=n), rest forest has n-k
    for k in 1..=n {
        for sub in forests(k - 1) {
            for rest in forests(n - k) {
                let mut f = vec![Tree {
                    kind: K::S,
                    children: sub.clone(),
                }];
                f.extend(rest);
                out.push(f);
            }
        }
    }
    out
}

fn kinds_tree(t: &Tree, parent_is_parallel: bool) -> Vec<Tree> {
    // enumerate kind assignments for this subtree
    let mut out = vec![];
    let child_opts = |pk: &K, ch: &Vec<Tree>| -> Vec<Vec<Tree>> {
        let mut acc: Vec<Vec<Tree>> = vec![vec![]];
        for c in ch {
            let opts = kinds_tree(c, *pk == K::P);
            let mut nacc = vec![];
            for a in &acc {
                for o in &opts {
                    let mut x = a.clone();
                    x.push(o.clone());
                    nacc.push(x);
                }
            }
            acc = nacc;
        }
        acc
    };
    if t.children.is_empty() {
        out.push(Tree {
            kind: K::S,
            children: vec![],
        });
        if !parent_is_parallel {
            out.push(Tree {
                kind: K::F,
                children: vec![],
            });
        }
    } else {
        for k in [K::S, K::P] {
            for ch in child_opts(&k, &t.children) {
                // a compound state whose children are all final is legal; keep
                out.push(Tree {
                    kind: k.clone(),
                    children: ch,
                });
            }
        }
    }
    out
}

/// all kind assignments (state / parallel / final) of a forest
pub fn kinded(f: &[Tree]) -> Vec<Vec<Tree>> {
    let mut acc: Vec<Vec<Tree>> = vec![vec![]];
    for t in f {
        let opts = kinds_tree(t, false);
        let mut nacc = vec![];
        for a in &acc {
            for o in &opts {
                let mut x = a.clone();
                x.push(o.clone());
                nacc.push(x);
            }
        }
        acc = nacc;
    }
    acc
}

pub fn std_marks(d: &mut Doc) {
    for n in 1..d.nodes.len() {
        if d.is_history(n) {
            continue;
        }
        let nm = d.nodes[n].name.clone();
        d.nodes[n].onentry.push(vec![Stmt::Mark(vec!["en".into(), nm.clone()])]);
        d.nodes[n].onexit.push(vec![Stmt::Mark(vec!["ex".into(), nm])]);
    }
}

/// Builds a document from a kinded forest. `hist`: (ordinal of the parent state (1-based, pre-order over
/// real states), deep?) adds a history pseudo-state as first child of that state (default transition
/// must be set by the caller).
pub fn build(f: &[Tree], hist: &[(usize, bool)]) -> Doc {
    let mut d = Doc::new();
    let mut ord = 0usize;
    fn rec(d: &mut Doc, parent: Nx, t: &Tree, ord: &mut usize, hist: &[(usize, bool)]) {
        *ord += 1;
        let my = *ord;
        let kind = match t.kind {
            K::S => Kind::State,
            K::P => Kind::Parallel,
            K::F => Kind::Final,
        };
        let n = d.add(parent, &format!("s{}", my), kind);
        for (i, (o, deep)) in hist.iter().enumerate() {
            if *o == my && !t.children.is_empty() {
                let hn = if hist.len() > 1 { format!("h{}_{}", my, i) } else { format!("h{}", my) };
                d.add(n, &hn, if *deep { Kind::HistDeep } else { Kind::HistShallow });
            }
        }
        for c in &t.children {
            rec(d, n, c, ord, hist);
        }
    }
    for t in f {
        rec(&mut d, 0, t, &mut ord, hist);
    }
    d
}

pub fn count_states(f: &[Tree]) -> usize {
    f.iter().map(|t| 1 + count_states(&t.children)).sum()
}

/// ordinals (1-based pre-order) of nodes that have children
pub fn inner_ordinals(f: &[Tree]) -> Vec<usize> {
    let mut out = vec![];
    let mut ord = 0;
    fn rec(t: &Tree, ord: &mut usize, out: &mut Vec<usize>) {
        *ord += 1;
        if !t.children.is_empty() {
            out.push(*ord);
        }
        for c in &t.children {
            rec(c, ord, out);
        }
    }
    for t in f {
        rec(t, &mut ord, &mut out);
    }
    out
}

#[derive(Clone, Debug, PartialEq, Eq)]
pub struct Cand {
    pub src: Nx,
    pub targets: Vec<Nx>,
    pub internal: bool,
}

/// candidate transitions of a document
pub fn candidates(d: &Doc, pairs: bool, internal_everywhere: bool, history_targets: bool) -> Vec<Cand> {
    let mut out = vec![];
    let n = d.nodes.len();
    for src in 1..n {
        if !matches!(d.nodes[src].kind, Kind::State | Kind::Parallel) {
            continue;
        }
        let mut tsets: Vec<Vec<Nx>> = vec![vec![]];
        for t in 1..n {
            if d.is_history(t) && !history_targets {
                continue;
            }
            tsets.push(vec![t]);
        }
        if pairs {
            for a in 1..n {
                for b in (a + 1)..n {
                    if d.is_history(a) || d.is_history(b) {
                        continue;
                    }
                    if d.legal_target_set(&[a, b]) {
                        tsets.push(vec![a, b]);
                    }
                }
            }
        }
        for ts in tsets {
            out.push(Cand {
                src,
                targets: ts.clone(),
                internal: false,
            });
            let internal_meaningful = d.is_compound(src) && !ts.is_empty() && ts.iter().all(|t| d.is_descendant(*t, src));
            if !ts.is_empty() && (internal_everywhere || internal_meaningful) {
                out.push(Cand {
                    src,
                    targets: ts,
                    internal: true,
                });
            }
        }
    }
    out
}

/// transition that targets a history pseudo-state from a source inside the history's parent
/// (triggers an anomaly of the W3C algorithm itself, see DESIGN.md findings)
pub fn is_hist_inside(d: &Doc, c: &Cand) -> bool {
    c.targets.iter().any(|t| d.is_history(*t) && d.is_descendant(c.src, d.nodes[*t].parent.unwrap()))
}

pub fn add_trans(d: &mut Doc, c: &Cand, event: Option<&str>, cond: Option<Expr>, tag: &str) {
    let idx = d.nodes[c.src].trans.len();
    let src_name = d.nodes[c.src].name.clone();
    d.nodes[c.src].trans.push(Trans {
        events: event.map(|e| vec![e.to_string()]).unwrap_or_default(),
        cond,
        targets: c.targets.clone(),
        internal: c.internal,
        content: vec![Stmt::Mark(vec!["t".into(), src_name, idx.to_string(), tag.to_string()])],
    });
}

/// legal default targets of a history node
pub fn history_defaults(d: &Doc, h: Nx) -> Vec<Nx> {
    let p = d.nodes[h].parent.unwrap();
    if d.nodes[h].kind == Kind::HistDeep {
        d.descendants(p).into_iter().filter(|x| !d.is_history(*x)).collect()
    } else {
        d.child_states(p)
    }
}

pub fn set_history_default(d: &mut Doc, h: Nx, target: Nx) {
    let hn = d.nodes[h].name.clone();
    d.nodes[h].trans = vec![Trans {
        events: vec![],
        cond: None,
        targets: vec![target],
        internal: false,
        content: vec![Stmt::Mark(vec!["hd".into(), hn])],
    }];
}

/// Iterator-like enumeration of base shapes: all kinded forests with 1..=n states.
pub fn shapes_upto(n: usize) -> Vec<Vec<Tree>> {
    let mut out = vec![];
    for k in 1..=n {
        for f in forests(k) {
            out.extend(kinded(&f));
        }
    }
    out
}

pub fn has_kind(f: &[Tree], k: &K) -> bool {
    f.iter().any(|t| t.kind == *k || has_kind(&t.children, k))
}

pub fn depth(f: &[Tree]) -> usize {
    f.iter().map(|t| 1 + depth(&t.children)).max().unwrap_or(0)
}

/// All legal `initial` specifications for node n (single descendants and legal pairs).
pub fn initial_specs(d: &Doc, n: Nx, pairs: bool) -> Vec<Vec<Nx>> {
    let desc: Vec<Nx> = d.descendants(n).into_iter().filter(|x| !d.is_history(*x)).collect();
    let mut out: Vec<Vec<Nx>> = desc.iter().map(|x| vec![*x]).collect();
    if pairs {
        for (i, a) in desc.iter().enumerate() {
            for b in desc.iter().skip(i + 1) {
                if d.legal_target_set(&[*a, *b]) {
                    out.push(vec![*a, *b]);
                }
            }
        }
    }
    out
}

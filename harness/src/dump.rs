//! Canonical, id-free dump of an rFSM model (every public field, executable content downcast).

use rufsm::datamodel::{Data, ToAny};
use rufsm::executable_content::{
    Assign, Cancel, ExecutableContent, Expression, ForEach, If, Log, Raise, Script, SendParameters, TYPE_ASSIGN,
    TYPE_CANCEL, TYPE_EXPRESSION, TYPE_FOREACH, TYPE_IF, TYPE_LOG, TYPE_RAISE, TYPE_SCRIPT, TYPE_SEND,
};
use rufsm::fsm::{CommonContent, DoneData, Fsm, HistoryType, Invoke, Parameter, Transition, TransitionType};
use serde_json::{json, Value};

pub fn data_text(d: &Data) -> Value {
    match d {
        Data::Source(s) => json!({"src": s.source}),
        Data::None() => Value::Null,
        Data::Null() => json!({"null": true}),
        Data::Integer(i) => json!({"int": i}),
        Data::Double(f) => json!({"double": format!("{:?}", f)}),
        Data::String(s) => json!({"str": s}),
        Data::Boolean(b) => json!({"bool": b}),
        Data::Error(e) => json!({"error": e}),
        Data::Array(a) => json!({"array": a.iter().map(|x| match x.arc.try_lock() { Ok(g) => data_text(&g), Err(_) => json!("<locked>") }).collect::<Vec<_>>()}),
        Data::Map(m) => {
            let mut v: Vec<(String, Value)> = m
                .iter()
                .map(|(k, x)| {
                    (
                        k.clone(),
                        match x.arc.try_lock() {
                            Ok(g) => data_text(&g),
                            Err(_) => json!("<locked>"),
                        },
                    )
                })
                .collect();
            v.sort_by(|a, b| a.0.cmp(&b.0));
            json!({"map": v})
        }
    }
}

fn state_name(fsm: &Fsm, id: u32) -> Value {
    if id == 0 {
        return Value::Null;
    }
    if id == fsm.pseudo_root {
        return json!("<root>");
    }
    match fsm.states.get((id - 1) as usize) {
        Some(s) => json!(s.name),
        None => json!(format!("<dangling state id {}>", id)),
    }
}

fn params(p: &Option<Vec<Parameter>>) -> Value {
    match p {
        None => json!([]),
        Some(v) => json!(v
            .iter()
            .map(|x| json!({"name": x.name, "expr": x.expr, "location": x.location}))
            .collect::<Vec<_>>()),
    }
}

fn common_content(c: &Option<CommonContent>) -> Value {
    match c {
        None => Value::Null,
        Some(c) => json!({"content": c.content, "expr": c.content_expr}),
    }
}

pub fn content_block(fsm: &Fsm, id: u32, depth: usize) -> Value {
    if id == 0 {
        return json!([]);
    }
    if depth > 64 {
        return json!("<content nesting too deep / cyclic>");
    }
    match fsm.executableContent.get(&id) {
        None => json!(format!("<dangling content id {}>", id)),
        Some(v) => json!(v.iter().map(|e| content_item(fsm, e.as_ref(), depth)).collect::<Vec<_>>()),
    }
}

fn content_item(fsm: &Fsm, e: &dyn ExecutableContent, depth: usize) -> Value {
    let any = e.as_any();
    match e.get_type() {
        TYPE_IF => {
            let x = any.downcast_ref::<If>().unwrap();
            json!({"if": data_text(&x.condition), "then": content_block(fsm, x.content, depth + 1), "else": content_block(fsm, x.else_content, depth + 1)})
        }
        TYPE_EXPRESSION => {
            let x = any.downcast_ref::<Expression>().unwrap();
            json!({"script": data_text(&x.content)})
        }
        TYPE_SCRIPT => {
            let x = any.downcast_ref::<Script>().unwrap();
            json!({"script_blocks": x.content.iter().map(|c| content_block(fsm, *c, depth + 1)).collect::<Vec<_>>()})
        }
        TYPE_LOG => {
            let x = any.downcast_ref::<Log>().unwrap();
            json!({"log": data_text(&x.expression), "label": x.label})
        }
        TYPE_FOREACH => {
            let x = any.downcast_ref::<ForEach>().unwrap();
            json!({"foreach": data_text(&x.array), "item": x.item, "index": x.index, "body": content_block(fsm, x.content, depth + 1)})
        }
        TYPE_SEND => {
            let x = any.downcast_ref::<SendParameters>().unwrap();
            json!({"send": {
                "id": x.name, "idlocation": x.name_location,
                "parent_state_name": if x.name_location.is_empty() { Value::Null } else { json!(x.parent_state_name) },
                "event": data_text(&x.event), "eventexpr": data_text(&x.event_expr),
                "target": data_text(&x.target), "targetexpr": data_text(&x.target_expr),
                "type": data_text(&x.type_value), "typeexpr": data_text(&x.type_expr),
                "delay_ms": x.delay_ms, "delayexpr": data_text(&x.delay_expr),
                "namelist": x.name_list, "params": params(&x.params), "content": common_content(&x.content)}})
        }
        TYPE_RAISE => {
            let x = any.downcast_ref::<Raise>().unwrap();
            json!({"raise": x.event})
        }
        TYPE_CANCEL => {
            let x = any.downcast_ref::<Cancel>().unwrap();
            json!({"cancel": x.send_id, "sendidexpr": data_text(&x.send_id_expr)})
        }
        TYPE_ASSIGN => {
            let x = any.downcast_ref::<Assign>().unwrap();
            json!({"assign": data_text(&x.location), "expr": data_text(&x.expr)})
        }
        t => json!(format!("<unknown content type {}>", t)),
    }
}

fn transition(fsm: &Fsm, t: &Transition) -> Value {
    json!({
        "events": t.events,
        "wildcard": t.wildcard,
        "cond": data_text(&t.cond),
        "source": state_name(fsm, t.source),
        "targets": t.target.iter().map(|x| state_name(fsm, *x)).collect::<Vec<_>>(),
        "type": if t.transition_type == TransitionType::Internal { "internal" } else { "external" },
        "content": content_block(fsm, t.content, 0),
    })
}

fn transition_by_id(fsm: &Fsm, id: u32) -> Value {
    if id == 0 {
        return Value::Null;
    }
    match fsm.transitions.get(&id) {
        Some(t) => transition(fsm, t),
        None => json!(format!("<dangling transition id {}>", id)),
    }
}

fn invoke(fsm: &Fsm, i: &Invoke) -> Value {
    json!({
        "id": i.invoke_id, "idlocation": i.external_id_location,
        "parent_state_name": if i.invoke_id.is_empty() { json!(i.parent_state_name) } else { Value::Null },
        "type": data_text(&i.type_name), "typeexpr": data_text(&i.type_expr),
        "src": data_text(&i.src), "srcexpr": data_text(&i.src_expr),
        "autoforward": i.autoforward, "namelist": i.name_list,
        "params": params(&i.params), "content": common_content(&i.content),
        "finalize": content_block(fsm, i.finalize, 0),
    })
}

fn donedata(d: &Option<DoneData>) -> Value {
    match d {
        None => Value::Null,
        Some(d) => json!({"content": common_content(&d.content), "params": params(&d.params)}),
    }
}

/// `with_doc_order`: include the relative document order of states and of each state's transitions
pub fn dump_fsm(fsm: &Fsm) -> Value {
    let mut states: Vec<&rufsm::fsm::State> = fsm.states.iter().collect();
    states.sort_by_key(|s| s.doc_id);
    let sv: Vec<Value> = states
        .iter()
        .map(|s| {
            let mut data: Vec<(String, Value)> = s
                .data
                .iter()
                .map(|(k, v)| {
                    (
                        k.clone(),
                        match v.arc.try_lock() {
                            Ok(g) => data_text(&g),
                            Err(_) => json!("<locked>"),
                        },
                    )
                })
                .collect();
            data.sort_by(|a, b| a.0.cmp(&b.0));
            // transitions in the state's list order; doc order must agree with list order
            let tl: Vec<u32> = s.transitions.iterator().cloned().collect();
            let mut doc_sorted = tl.clone();
            doc_sorted.sort_by_key(|t| fsm.transitions.get(t).map(|x| x.doc_id).unwrap_or(0));
            let mut invs: Vec<&Invoke> = s.invoke.iterator().collect();
            invs.sort_by_key(|i| i.doc_id);
            json!({
                "name": state_name(fsm, s.id),
                "declared": s.doc_id != 0,
                "kind": if s.is_final { "final" } else if s.is_parallel { "parallel" } else if s.history_type == HistoryType::Deep { "history-deep" } else if s.history_type == HistoryType::Shallow { "history-shallow" } else { "state" },
                "parent": state_name(fsm, s.parent),
                "children": s.states.iter().map(|c| state_name(fsm, *c)).collect::<Vec<_>>(),
                "history": s.history.iterator().map(|c| state_name(fsm, *c)).collect::<Vec<_>>(),
                "initial": transition_by_id(fsm, s.initial),
                "onentry": s.onentry.iter().map(|c| content_block(fsm, *c, 0)).collect::<Vec<_>>(),
                "onexit": s.onexit.iter().map(|c| content_block(fsm, *c, 0)).collect::<Vec<_>>(),
                "transitions": tl.iter().map(|t| transition_by_id(fsm, *t)).collect::<Vec<_>>(),
                "transitions_in_document_order": tl == doc_sorted,
                "invoke": invs.iter().map(|i| invoke(fsm, i)).collect::<Vec<_>>(),
                "data": data,
                "donedata": donedata(&s.donedata),
            })
        })
        .collect();
    json!({
        "name": fsm.name,
        "datamodel": fsm.datamodel,
        "binding": format!("{:?}", fsm.binding),
        "script": content_block(fsm, fsm.script, 0),
        "states": sv,
        "transition_count": fsm.transitions.len(),
    })
}

/// first differing path between two JSON values
pub fn json_diff(a: &Value, b: &Value, path: &str) -> Option<String> {
    match (a, b) {
        (Value::Object(x), Value::Object(y)) => {
            for (k, v) in x {
                match y.get(k) {
                    Some(w) => {
                        if let Some(d) = json_diff(v, w, &format!("{}.{}", path, k)) {
                            return Some(d);
                        }
                    }
                    None => return Some(format!("{}.{}: missing on the right", path, k)),
                }
            }
            for k in y.keys() {
                if !x.contains_key(k) {
                    return Some(format!("{}.{}: missing on the left", path, k));
                }
            }
            None
        }
        (Value::Array(x), Value::Array(y)) => {
            if x.len() != y.len() {
                return Some(format!("{}: length {} vs {}: {} vs {}", path, x.len(), y.len(), short(a), short(b)));
            }
            for (i, (v, w)) in x.iter().zip(y.iter()).enumerate() {
                if let Some(d) = json_diff(v, w, &format!("{}[{}]", path, i)) {
                    return Some(d);
                }
            }
            None
        }
        _ => {
            if a == b {
                None
            } else {
                Some(format!("{}: {} vs {}", path, short(a), short(b)))
            }
        }
    }
}

fn short(v: &Value) -> String {
    let s = v.to_string();
    if s.len() > 300 {
        format!("{}...", s.chars().take(300).collect::<String>())
    } else {
        s
    }
}

//! Runs one real rFSM session under harness pacing (hand-shake at the idle point).

use crate::rec::*;
use rufsm::actions::ActionWrapper;
use rufsm::datamodel::Data;
use rufsm::fsm::{self, Event, FinishMode, Fsm, ScxmlSession};
use rufsm::fsm_executor::FsmExecutor;
use std::collections::HashMap;
use std::panic::{catch_unwind, AssertUnwindSafe};
use std::sync::{Arc, Mutex, OnceLock};
use std::time::Duration;

pub struct Globals {
    pub current: Arc<Mutex<Option<Arc<RunLog>>>>,
}

static GLOBALS: OnceLock<Globals> = OnceLock::new();

/// Panic messages captured by the process-wide hook: (thread name, message, location)
pub static PANICS: Mutex<Vec<(String, String, String)>> = Mutex::new(Vec::new());

pub fn globals() -> &'static Globals {
    GLOBALS.get_or_init(|| {
        let current = Arc::new(Mutex::new(None));
        rufsm::tracer::set_tracer_factory(Box::new(RecFactory {
            current: current.clone(),
        }));
        std::panic::set_hook(Box::new(|info| {
            let msg = if let Some(s) = info.payload().downcast_ref::<&str>() {
                s.to_string()
            } else if let Some(s) = info.payload().downcast_ref::<String>() {
                s.clone()
            } else {
                "<non-string panic payload>".to_string()
            };
            let loc = info
                .location()
                .map(|l| format!("{}:{}", l.file(), l.line()))
                .unwrap_or_default();
            let tn = std::thread::current().name().unwrap_or("").to_string();
            if let Ok(mut g) = PANICS.lock() {
                g.push((tn, msg, loc));
            }
        }));
        Globals { current }
    })
}

pub fn take_panics() -> Vec<(String, String, String)> {
    std::mem::take(&mut *PANICS.lock().unwrap_or_else(|e| e.into_inner()))
}

#[derive(Clone, Debug, PartialEq)]
pub enum Wait {
    /// reached the requested idle count
    Idle,
    /// interpret() returned
    Ended,
    /// recorder dropped without interpret() returning: the session thread panicked
    Died,
    /// nothing happened within the watchdog time
    Timeout,
}

pub struct Run {
    pub log: Arc<RunLog>,
    pub session: ScxmlSession,
    pub executor: FsmExecutor,
    /// state id -> name
    pub state_names: HashMap<u32, String>,
    /// transition id -> (source state name, index in source's transition list)
    pub trans_pos: HashMap<u32, (String, usize)>,
    /// history state ids
    pub hist_ids: Vec<(u32, String)>,
    pub watchdog: Duration,
    pub sent: usize,
}

#[derive(Debug)]
pub enum StartError {
    ParseErr(String),
    ParsePanic(String),
}

pub fn parse(xml: &str) -> Result<Box<Fsm>, StartError> {
    globals();
    let x = xml.to_string();
    match catch_unwind(AssertUnwindSafe(|| rufsm::scxml_reader::parse_from_xml(x))) {
        Ok(Ok(f)) => Ok(f),
        Ok(Err(e)) => Err(StartError::ParseErr(e)),
        Err(_) => {
            let p = take_panics();
            Err(StartError::ParsePanic(
                p.last().map(|x| format!("{} at {}", x.1, x.2)).unwrap_or_default(),
            ))
        }
    }
}

pub fn index_fsm(
    fsm: &Fsm,
) -> (
    HashMap<u32, String>,
    HashMap<u32, (String, usize)>,
    Vec<(u32, String)>,
) {
    let mut names = HashMap::new();
    let mut tp = HashMap::new();
    let mut hist = vec![];
    for s in &fsm.states {
        names.insert(s.id, s.name.clone());
        if s.history_type != rufsm::fsm::HistoryType::None {
            hist.push((s.id, s.name.clone()));
        } else {
            for (i, t) in s.transitions.iterator().enumerate() {
                tp.insert(*t, (s.name.clone(), i));
            }
        }
    }
    (names, tp, hist)
}

impl Run {
    /// Parses and starts a session; does not wait.
    pub fn start(xml: &str, watchdog: Duration) -> Result<Run, StartError> {
        Self::start_with(xml, watchdog, &[])
    }

    /// as start, but the parsed model is written to the binary format and read back before it is started
    pub fn start_via_binary(xml: &str, watchdog: Duration) -> Result<Run, StartError> {
        Self::start_full(xml, watchdog, &[], true)
    }

    pub fn start_with(xml: &str, watchdog: Duration, extra: &[(&str, Box<dyn rufsm::actions::Action>)]) -> Result<Run, StartError> {
        Self::start_full(xml, watchdog, extra, false)
    }

    pub fn start_full(
        xml: &str,
        watchdog: Duration,
        extra: &[(&str, Box<dyn rufsm::actions::Action>)],
        via_binary: bool,
    ) -> Result<Run, StartError> {
        let g = globals();
        let log = RunLog::new();
        *g.current.lock().unwrap() = Some(log.clone());
        let mut fsm = parse(xml)?;
        if via_binary {
            use rufsm::serializer::default_protocol_reader::DefaultProtocolReader;
            use rufsm::serializer::default_protocol_writer::DefaultProtocolWriter;
            use rufsm::serializer::fsm_reader::FsmReader;
            use rufsm::serializer::fsm_writer::FsmWriter;
            let r = catch_unwind(AssertUnwindSafe(|| {
                let mut w: FsmWriter<Vec<u8>> = FsmWriter::new(Box::new(DefaultProtocolWriter::new(Vec::new())));
                w.write(&fsm);
                w.close();
                let buf = w.get_writer().clone();
                let pr = DefaultProtocolReader::new(&buf[..]);
                let mut fr = FsmReader::new(Box::new(pr));
                fr.read()
            }));
            fsm = match r {
                Ok(Ok(f)) => f,
                Ok(Err(e)) => return Err(StartError::ParseErr(format!("binary round trip: {}", e))),
                Err(_) => {
                    return Err(StartError::ParsePanic(format!(
                        "binary round trip panicked: {:?}",
                        take_panics().last()
                    )))
                }
            };
        }
        fsm.tracer = Box::new(Recorder::new(log.clone()));
        let (state_names, trans_pos, hist_ids) = index_fsm(&fsm);
        let mut actions = ActionWrapper::new();
        actions.add_action(
            "mark",
            Box::new(MarkAction {
                current: g.current.clone(),
            }),
        );
        for (n, a) in extra {
            actions.add_action(n, a.get_copy());
        }
        let mut executor = FsmExecutor::new_without_io_processor();
        if ECMA_STRICT.load(std::sync::atomic::Ordering::Relaxed) {
            // the ecmascript data model in the strict mode the project's W3C conformance
            // configuration (test/w3c/test_config.json) uses
            let mut o = std::collections::HashMap::new();
            o.insert("datamodel:ecma:strict", String::new());
            executor.set_global_options_from_arguments(&o);
        }
        let session = fsm::start_fsm_with_data_and_finish_mode(
            fsm,
            actions,
            Box::new(executor.clone()),
            &[],
            FinishMode::KEEP_CONFIGURATION,
        );
        Ok(Run {
            log,
            session,
            executor,
            state_names,
            trans_pos,
            hist_ids,
            watchdog,
            sent: 0,
        })
    }

    /// Waits until the main session (thread index 0) has reached `idle_count` idle points, ended or died.
    pub fn wait_idle(&self, idle_count: usize) -> Wait {
        let ok = self.log.wait(
            |i| {
                i.threads() > 0 && (i.idle[0] >= idle_count || i.ended[0] || i.dropped[0])
            },
            self.watchdog,
        );
        if !ok {
            return Wait::Timeout;
        }
        let g = self.log.inner.lock().unwrap();
        if g.ended[0] {
            Wait::Ended
        } else if g.dropped[0] {
            Wait::Died
        } else {
            Wait::Idle
        }
    }

    pub fn send(&mut self, ev: Event) -> bool {
        self.sent += 1;
        self.session.sender.send(Box::new(ev)).is_ok()
    }

    pub fn send_name(&mut self, name: &str) -> bool {
        self.send(Event::new_simple(name))
    }

    /// Reads configuration (names, sorted), history values and data values while the session is idle.
    pub fn read_state(&self) -> Option<IdleState> {
        let g = match self.session.global_data.try_lock() {
            Ok(g) => g,
            Err(std::sync::TryLockError::Poisoned(p)) => p.into_inner(),
            Err(std::sync::TryLockError::WouldBlock) => {
                // the session may hold it for a moment just before blocking; take it blocking
                match self.session.global_data.lock() {
                    Ok(g) => g,
                    Err(p) => p.into_inner(),
                }
            }
        };
        let mut cfg: Vec<String> = g
            .configuration
            .iterator()
            .map(|id| self.state_names.get(id).cloned().unwrap_or(format!("#{}", id)))
            .collect();
        cfg.sort();
        let mut hist = vec![];
        for (hid, hname) in &self.hist_ids {
            if g.historyValue.has(*hid) {
                let mut v: Vec<String> = g
                    .historyValue
                    .get(*hid)
                    .iterator()
                    .map(|id| self.state_names.get(id).cloned().unwrap_or(format!("#{}", id)))
                    .collect();
                v.sort();
                hist.push((hname.clone(), v));
            }
        }
        hist.sort();
        let mut vars = vec![];
        for (k, v) in &g.data.map {
            if k == "_event" || k == "_ioprocessors" || k == "_sessionid" {
                continue;
            }
            let s = match v.arc.try_lock() {
                Ok(d) => show_data(&d),
                Err(_) => "<locked>".to_string(),
            };
            vars.push((k.clone(), s));
        }
        vars.sort();
        Some(IdleState {
            cfg,
            hist,
            vars,
            running: g.running,
            final_cfg: g.final_configuration.clone(),
        })
    }

    /// Cancels (if still alive) and joins the session thread. Returns true if the thread panicked.
    pub fn finish(mut self) -> bool {
        let _ = self
            .session
            .sender
            .send(Box::new(Event::new_simple(fsm::EVENT_CANCEL_SESSION)));
        let mut panicked = false;
        if let Some(h) = self.session.thread.take() {
            // joining is safe: a cancelled session always terminates unless it is wedged; guard by waiting
            let ok = self
                .log
                .wait(|i| i.threads() == 0 || i.ended[0] || i.dropped[0], self.watchdog);
            if ok {
                panicked = h.join().is_err();
            } else {
                // wedged: leak the thread
                std::mem::forget(h);
            }
        }
        *globals().current.lock().unwrap() = None;
        panicked
    }
}

/// start sessions with the executor option "datamodel:ecma:strict" (only meaningful in the
/// full-feature build; the rfsm-expression and null data models ignore it)
pub static ECMA_STRICT: std::sync::atomic::AtomicBool = std::sync::atomic::AtomicBool::new(false);

#[derive(Clone, Debug, PartialEq, Eq, Hash, PartialOrd, Ord)]
pub struct IdleState {
    pub cfg: Vec<String>,
    pub hist: Vec<(String, Vec<String>)>,
    pub vars: Vec<(String, String)>,
    pub running: bool,
    pub final_cfg: Option<Vec<String>>,
}

pub fn show_data(d: &Data) -> String {
    match d {
        Data::Integer(i) => i.to_string(),
        Data::Double(f) => format!("{:?}", f),
        Data::String(s) => s.clone(),
        Data::Boolean(b) => b.to_string(),
        Data::Null() => "null".to_string(),
        Data::None() => "".to_string(),
        Data::Error(e) => format!("<error {}>", e),
        Data::Source(s) => format!("<source {}>", s.source),
        Data::Array(a) => {
            let v: Vec<String> = a
                .iter()
                .map(|x| match x.arc.try_lock() {
                    Ok(d) => show_data(&d),
                    Err(_) => "<locked>".into(),
                })
                .collect();
            format!("[{}]", v.join(","))
        }
        Data::Map(m) => {
            let mut v: Vec<String> = m
                .iter()
                .map(|(k, x)| {
                    format!(
                        "{}:{}",
                        k,
                        match x.arc.try_lock() {
                            Ok(d) => show_data(&d),
                            Err(_) => "<locked>".into(),
                        }
                    )
                })
                .collect();
            v.sort();
            format!("{{{}}}", v.join(","))
        }
    }
}

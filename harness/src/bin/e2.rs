//! E2: bounded-exhaustive enumeration of the rfsm-expression engine (C10 semantics, C11 totality).

use rufsm::datamodel::expression_engine::RFsmExpressionDatamodel;
use rufsm::datamodel::{create_data_arc, create_global_data_arc, Data, DataArc, Datamodel, GlobalDataArc, SourceCode};
use serde_json::{json, Map, Value};
use std::collections::{BTreeMap, HashMap};
use std::panic::{catch_unwind, AssertUnwindSafe};
use std::sync::atomic::{AtomicUsize, Ordering};
use std::sync::mpsc;
use std::sync::Arc;
use std::time::Duration;
use vh::infra::*;
use vh::refexpr::*;
use vh::runner::{globals, take_panics};

// ------------------------------------------------------------------------------------------ store

fn arc(d: Data) -> DataArc {
    create_data_arc(d)
}

/// The data store every evaluation starts from (fresh copy per evaluation).
fn make_store() -> (GlobalDataArc, Vec<(String, DataArc)>) {
    let gd = create_global_data_arc();
    let mut vars: Vec<(String, DataArc)> = vec![];
    {
        let mut g = gd.lock().unwrap();
        RFsmExpressionDatamodel::add_internal_functions_to_wrapper(&mut g.actions);
        let arr = arc(Data::Array(vec![arc(Data::Integer(1)), arc(Data::Integer(2))]));
        let mut inner = HashMap::new();
        inner.insert("b".to_string(), arc(Data::Integer(5)));
        let mut outer = HashMap::new();
        outer.insert("b".to_string(), arc(Data::Map(inner)));
        outer.insert("k".to_string(), arc(Data::Integer(1)));
        let mut ro = arc(Data::Integer(1));
        ro.set_readonly(true);
        let list: Vec<(&str, DataArc)> = vec![
            ("i", arc(Data::Integer(3))),
            ("e1", arc(Data::Integer(4))),
            ("big", arc(Data::Integer(i64::MAX - 1))),
            ("d", arc(Data::Double(2.5))),
            ("s", arc(Data::String("ab".into()))),
            ("t", arc(Data::Boolean(true))),
            ("n", arc(Data::Null())),
            ("arr", arr.clone()),
            // alias: the same stored value under a second name
            ("al", arr),
            // a second array with equal contents but its own cells
            ("ar2", arc(Data::Array(vec![arc(Data::Integer(1)), arc(Data::Integer(2))]))),
            ("m", arc(Data::Map(outer))),
            ("mm", {
                // a map whose only member is a map with the same key: m == m.b walks into itself
                let mut i2 = HashMap::new();
                i2.insert("b".to_string(), arc(Data::Integer(5)));
                let mut o2 = HashMap::new();
                o2.insert("b".to_string(), arc(Data::Map(i2)));
                arc(Data::Map(o2))
            }),
            ("ro", ro),
            // nested containers of equal shape on every level: a value compared with its own descendant walks
            // down both sides in step
            ("n3", arc(Data::Array(vec![arc(Data::Array(vec![arc(Data::Array(vec![arc(Data::Integer(1))]))]))]))),
            ("n4", arc(Data::Array(vec![arc(Data::Array(vec![arc(Data::Array(vec![arc(Data::Array(vec![arc(Data::Integer(1))]))]))]))]))),
            ("m3", {
                let mut l1 = HashMap::new();
                l1.insert("k".to_string(), arc(Data::Integer(1)));
                let mut l2 = HashMap::new();
                l2.insert("k".to_string(), arc(Data::Map(l1)));
                let mut l3 = HashMap::new();
                l3.insert("k".to_string(), arc(Data::Map(l2)));
                arc(Data::Map(l3))
            }),
        ];
        for (k, v) in list {
            g.data.map.insert(k.to_string(), v.clone());
            vars.push((k.to_string(), v));
        }
    }
    (gd, vars)
}

fn ref_store() -> Store {
    let mut s = Store::new();
    s.insert("i".into(), RV::Int(3));
    s.insert("e1".into(), RV::Int(4));
    s.insert("big".into(), RV::Int(i64::MAX - 1));
    s.insert("d".into(), RV::Dbl(2.5));
    s.insert("s".into(), RV::Str("ab".into()));
    s.insert("t".into(), RV::Bool(true));
    s.insert("n".into(), RV::Null);
    s.insert("arr".into(), RV::Arr(vec![RV::Int(1), RV::Int(2)]));
    s.insert("al".into(), RV::Arr(vec![RV::Int(1), RV::Int(2)]));
    let mut inner = BTreeMap::new();
    inner.insert("b".to_string(), RV::Int(5));
    let mut outer = BTreeMap::new();
    outer.insert("b".to_string(), RV::Map(inner));
    outer.insert("k".to_string(), RV::Int(1));
    s.insert("m".into(), RV::Map(outer));
    s.insert("ro".into(), RV::Int(1));
    let mut i2 = BTreeMap::new();
    i2.insert("b".to_string(), RV::Int(5));
    let mut o2 = BTreeMap::new();
    o2.insert("b".to_string(), RV::Map(i2));
    s.insert("mm".into(), RV::Map(o2));
    s
}

fn data_to_rv(d: &Data) -> Option<RV> {
    Some(match d {
        Data::Integer(i) => RV::Int(*i),
        Data::Double(f) => RV::Dbl(*f),
        Data::String(s) => RV::Str(s.clone()),
        Data::Boolean(b) => RV::Bool(*b),
        Data::Null() => RV::Null,
        Data::Array(a) => {
            let mut v = vec![];
            for x in a {
                let g = x.arc.try_lock().ok()?;
                v.push(data_to_rv(&g)?);
            }
            RV::Arr(v)
        }
        Data::Map(m) => {
            let mut r = BTreeMap::new();
            for (k, x) in m {
                let g = x.arc.try_lock().ok()?;
                r.insert(k.clone(), data_to_rv(&g)?);
            }
            RV::Map(r)
        }
        Data::None() | Data::Error(_) | Data::Source(_) => return None,
    })
}

#[derive(Clone, Debug, PartialEq)]
enum Outcome {
    /// value rendered canonically (or "<unrenderable>")
    Ok(String),
    Err,
    Panic(String),
}

impl Outcome {
    fn class(&self) -> String {
        match self {
            Outcome::Ok(s) => format!("ok:{}", s.chars().take(1).collect::<String>()),
            Outcome::Err => "err".into(),
            Outcome::Panic(p) => format!("panic:{}", p),
        }
    }
}

/// One evaluation through the data model API. `source_id` 0 = uncached compile.
/// `raw`: use ExpressionParser::execute directly (any result type) instead of Datamodel::execute.
fn evaluate(src: &str, source_id: usize, times: usize, raw: bool) -> (Vec<Outcome>, Vec<String>) {
    let (gd, vars) = make_store();
    let mut dm = RFsmExpressionDatamodel::new(gd.clone());
    let mut outs = vec![];
    for round in 0..times {
        if round > 0 {
            // same data model instance (compilation cache), fresh store contents
            let (g2, _) = make_store();
            let fresh: HashMap<String, DataArc> = g2.lock().unwrap().data.map.clone();
            if let Ok(mut g) = gd.try_lock() {
                g.data.map = fresh;
            }
        }
        let r = catch_unwind(AssertUnwindSafe(|| {
            if raw {
                let res = {
                    let mut g = gd.lock().unwrap();
                    if source_id == 0 {
                        rufsm::expression_engine::parser::ExpressionParser::execute(src.to_string(), &mut g)
                    } else {
                        // cached path of the data model is only reachable through Datamodel::execute
                        drop(g);
                        return dm
                            .execute(&Data::Source(SourceCode::new(src, source_id)))
                            .map(|v| v.arc.try_lock().ok().and_then(|g| data_to_rv(&g)).map(|x| x.show()));
                    }
                };
                match res {
                    Ok(v) => {
                        // an operator applied to illegal operands yields an error *value* on this API level
                        if let Ok(g) = v.arc.try_lock() {
                            if let Data::Error(e) = &*g {
                                return Err(e.clone());
                            }
                        }
                        Ok(v.arc.try_lock().ok().and_then(|g| data_to_rv(&g)).map(|x| x.show()))
                    }
                    Err(e) => Err(e),
                }
            } else {
                dm.execute(&Data::Source(SourceCode::new(src, source_id)))
                    .map(|v| v.arc.try_lock().ok().and_then(|g| data_to_rv(&g)).map(|x| x.show()))
            }
        }));
        outs.push(match r {
            Ok(Ok(Some(s))) => Outcome::Ok(s),
            Ok(Ok(None)) => Outcome::Ok("<none-or-unrenderable>".into()),
            Ok(Err(_)) => Outcome::Err,
            Err(_) => {
                let p = take_panics();
                let d = p
                    .last()
                    .map(|x| format!("{} at {}", x.1.chars().take(60).collect::<String>(), x.2))
                    .unwrap_or_default();
                Outcome::Panic(d)
            }
        });
    }
    // health of the store after the evaluation(s)
    let mut health = vec![];
    match gd.try_lock() {
        Ok(_) => {}
        Err(std::sync::TryLockError::Poisoned(_)) => health.push("global data poisoned".to_string()),
        Err(std::sync::TryLockError::WouldBlock) => health.push("global data left locked".to_string()),
    }
    for (k, v) in &vars {
        match v.arc.try_lock() {
            Ok(_) => {}
            Err(std::sync::TryLockError::Poisoned(_)) => health.push(format!("value '{}' poisoned", k)),
            Err(std::sync::TryLockError::WouldBlock) => health.push(format!("value '{}' left locked", k)),
        }
    }
    (outs, health)
}

// ------------------------------------------------------------------------------------------ families (C11)

const CHARS: &[&str] = &[
    "0", "1", "9", ".", "-", "+", "e", "E", "a", "_", "'", "\"", "\\", "u", "(", ")", "[", "]", "!", "=", "<", " ", "\u{e9}",
    "\0",
];
const CHARS_CORE: &[&str] = &["1", ".", "-", "e", "a", "'", "(", "[", "!", "=", "<", "{", ":", "%", "?", ","];

const TOKENS: &[&str] = &[
    "0", "1", "2", "7", "-1", "2.5", "'a'", "''", "true", "false", "null", "i", "d", "s", "arr", "al", "m", "u", "ro", "+", "-", "*",
    "/", "%", "<", "<=", ">", ">=", "==", "!=", "=", "?=", "&", "|", "!", ".", ",", ";", ":", "(", ")", "[", "]", "{", "}", "length",
    "abs", "b",
];
const TOKENS_CORE: &[&str] = &["1", "i", "arr", "al", "mm", "b", "=", "==", "%", "!", ".", "(", ")", "[", "]", "abs"];

fn nth_seq(alpha: &[&str], len: usize, mut idx: u64, sep: &str) -> String {
    let mut parts = Vec::with_capacity(len);
    for _ in 0..len {
        parts.push(alpha[(idx % alpha.len() as u64) as usize]);
        idx /= alpha.len() as u64;
    }
    parts.join(sep)
}

struct Family {
    name: &'static str,
    count: u64,
    gen: Box<dyn Fn(u64) -> String + Send + Sync>,
}

fn pow(a: usize, b: usize) -> u64 {
    (a as u64).pow(b as u32)
}

fn c11_families(thorough: bool) -> Vec<Family> {
    let mut v: Vec<Family> = vec![];
    let maxc = if thorough { 5 } else { 4 };
    for len in 0..=maxc {
        v.push(Family {
            name: "chars",
            count: pow(CHARS.len(), len),
            gen: Box::new(move |i| nth_seq(CHARS, len, i, "")),
        });
    }
    let corec = if thorough { 7 } else { 5 };
    for len in (maxc + 1)..=corec {
        v.push(Family {
            name: "chars-core",
            count: pow(CHARS_CORE.len(), len),
            gen: Box::new(move |i| nth_seq(CHARS_CORE, len, i, "")),
        });
    }
    let maxt = if thorough { 4 } else { 3 };
    for len in 1..=maxt {
        for sep in [" ", ""] {
            v.push(Family {
                name: if sep == " " { "tokens-spaced" } else { "tokens-tight" },
                count: pow(TOKENS.len(), len),
                gen: Box::new(move |i| nth_seq(TOKENS, len, i, sep)),
            });
        }
    }
    let coret = if thorough { 6 } else { 5 };
    for len in (maxt + 1)..=coret {
        v.push(Family {
            name: "tokens-core",
            count: pow(TOKENS_CORE.len(), len),
            gen: Box::new(move |i| nth_seq(TOKENS_CORE, len, i, " ")),
        });
    }
    // nesting-depth ladder (a listed family, not a claim about all depths)
    // 2^k levels; operator chains are parsed in quadratic time, so their ladder ends two rungs earlier
    let maxk = if thorough { 16 } else { 12 };
    v.push(Family {
        name: "depth-ladder",
        count: (maxk as u64 + 1) * 6,
        gen: Box::new(move |i| {
            let k = (i / 6) as u32;
            let mut n = 1usize << k;
            if i % 6 == 2 && k + 2 > maxk as u32 {
                n = 1usize << (maxk as u32 - 2);
            }
            match i % 6 {
                0 => format!("{}1{}", "(".repeat(n), ")".repeat(n)),
                1 => format!("{}1{}", "[".repeat(n), "]".repeat(n)),
                2 => format!("1{}", " + 1".repeat(n)),
                3 => format!("{}true", "!".repeat(n)),
                4 => format!("arr{}", "[0]".repeat(n)),
                _ => format!("{}1{}", "{'a':".repeat(n), "}".repeat(n)),
            }
        }),
    });
    // string literals: every single-character escape, \u escapes at the boundaries of the code space (surrogates,
    // non-characters, ends of the UTF-8 length classes) in both letter cases, truncated and malformed escapes,
    // surrogate pairs; in both quote kinds, alone and embedded
    let escapes: Arc<Vec<String>> = Arc::new({
        let mut bodies: Vec<String> = vec![];
        for c in 0x20u8..0x7f {
            bodies.push(format!("\\{}", c as char));
        }
        let cps = ["0000", "0001", "0041", "007f", "0080", "07ff", "0800", "d7ff", "d800", "d83d", "dbff", "dc00", "de00", "dfff", "e000", "fdd0", "fffe", "ffff"];
        for cp in cps {
            bodies.push(format!("\\u{}", cp));
            bodies.push(format!("\\u{}", cp.to_uppercase()));
            bodies.push(format!("\\U{}", cp));
        }
        for a in ["d83d", "d800", "dbff", "0041"] {
            for b in ["de00", "dc00", "dfff", "0041", "d800"] {
                bodies.push(format!("\\u{}\\u{}", a, b));
            }
        }
        for t in ["\\u", "\\u1", "\\u12", "\\u123", "\\uzzzz", "\\u12g4", "\\u-123", "\\u+123", "\\u 123", "\\u00e9", "\\x41", "\\101", "\\"] {
            bodies.push(t.to_string());
        }
        let mut v = vec![];
        for b in &bodies {
            for q in ["'", "\""] {
                v.push(format!("{q}{b}{q}", q = q, b = b));
                v.push(format!("{q}ab{b}cd{q}", q = q, b = b));
                v.push(format!("{q}{b}", q = q, b = b));
                v.push(format!("length({q}{b}{q})", q = q, b = b));
                v.push(format!("{q}{b}{q} == {q}{b}{q}", q = q, b = b));
            }
        }
        v
    });
    let esc2 = escapes.clone();
    v.push(Family {
        name: "string-escapes",
        count: escapes.len() as u64,
        gen: Box::new(move |i| esc2[i as usize].clone()),
    });
    // operand values at arithmetic boundaries (C11: no panic for any operand)
    let nums = [
        "0",
        "1",
        "-1",
        "2",
        "9223372036854775807",
        "-9223372036854775807",
        "(-9223372036854775807 - 1)",
        "0.0",
        "2.5",
        "1e308",
        "big",
        "null",
    ];
    let ops = ["+", "-", "*", "/", "%", "<", "==", ":"];
    v.push(Family {
        name: "numeric-boundaries",
        count: (nums.len() * nums.len() * ops.len()) as u64 + 2 * nums.len() as u64,
        gen: Box::new(move |i| {
            let nn = nums.len() as u64;
            let no = ops.len() as u64;
            if i < nn * nn * no {
                format!("{} {} {}", nums[(i % nn) as usize], ops[((i / nn) % no) as usize], nums[(i / nn / no) as usize])
            } else if i < nn * nn * no + nn {
                format!("abs({})", nums[(i - nn * nn * no) as usize])
            } else {
                // the bare operand (as a condition: conversion to a truth value)
                nums[(i - nn * nn * no - nn) as usize].to_string()
            }
        }),
    });
    // a container compared with / added to / indexed by its own descendants and ancestors (equal shapes level by level)
    let rel: Vec<&'static str> = vec![
        "n3", "n3[0]", "(n3[0])[0]", "n4", "n4[0]", "(n4[0])[0]", "((n4[0])[0])[0]", "m3", "m3.k", "(m3.k).k", "m3['k']", "arr", "mm", "mm.b",
    ];
    let rops = ["==", "!=", "+", "<", ">="];
    let relc = rel.clone();
    v.push(Family {
        name: "descendant-comparisons",
        count: (rel.len() * rel.len() * rops.len()) as u64,
        gen: Box::new(move |i| {
            let n = relc.len() as u64;
            format!("{} {} {}", relc[(i % n) as usize], rops[((i / n) % rops.len() as u64) as usize], relc[(i / n / rops.len() as u64) as usize])
        }),
    });
    v
}

// ------------------------------------------------------------------------------------------ statement sequences (C10 + C11)

/// Statements of the sequence family. A case is a sequence of these executed one after the other on ONE store
/// (never reset), so that a statement sees the values and the aliasing that earlier statements left behind.
/// Simplest first. The same statement may occur several times in a sequence: on the cached path it is then served
/// from the session's compilation cache.
const SEQ_STMTS: &[&str] = &[
    // literals with constant elements, stored in a variable (container copy: the element cells stay shared)
    "x ?= [0, [1], {'k':2}]",
    "y ?= {'n':1, 'a':[1,2]}",
    "x = [0, [1], {'k':2}]",
    // reads
    "x",
    "y",
    "x[0]",
    "x[1]",
    "x[1][0]",
    "x[2].k",
    "y.n",
    "y.a",
    "y.a[1]",
    // in-place modification of an element / member
    "x[0] = 5",
    "x[1][0] = 7",
    "x[2].k = 9",
    "y.n = 3",
    "y.a[1] = 8",
    "x[1] = [4]",
    // pure literals (value must not depend on the evaluation history)
    "[0, [1], {'k':2}]",
    "{'n':1, 'a':[1,2]}",
    "[0, [1], {'k':2}][1][0]",
    // copies
    "z ?= x",
    "z[0] = 1",
    "z",
    "z = y",
    // values that contain themselves / each other (only creatable by aliasing assignments)
    "x[0] = x",
    "x[1] = x",
    "y.n = y",
    "y.a = x",
    "x[1] = y",
    "arr[0] = arr",
    "arr[0] = al",
    "m.b = m",
    "ar2[0] = ar2",
    "ar2[0] = arr",
    // operations on possibly self-containing / aliased operands
    "toString(x)",
    "x.toString()",
    "toString(y)",
    "toString(arr)",
    "toString(m)",
    "length(x)",
    "x == x[0]",
    "x == x[1]",
    "x[1] == x",
    "y == y.n",
    "y != y.a",
    "arr == arr[0]",
    "m == m.b",
    "arr == ar2",
    "arr != ar2",
    "mm == m",
    "x + x",
    "x + x[0]",
    "y + y",
    "y + y.n",
    "y[x]",
    "y[[y]]",
    "y[y]",
    "m[[m]]",
    "m[m.b]",
    "x[x]",
    "x[x[0]]",
    "{'q':x}",
    "[x, y]",
    "x = x[0]",
    "x = x[1]",
    "y = y.n",
    "y = y.a",
];

fn seq_count(len: usize) -> u64 {
    pow(SEQ_STMTS.len(), len)
}

fn seq_source(len: usize, idx: u64) -> String {
    nth_seq(SEQ_STMTS, len, idx, "\n")
}

fn seq_lens(thorough: bool) -> Vec<usize> {
    if thorough {
        vec![1, 2, 3, 4]
    } else {
        vec![1, 2, 3]
    }
}

/// one data model session with a persistent store
struct Sess {
    gd: GlobalDataArc,
    dm: RFsmExpressionDatamodel,
}

impl Sess {
    fn new() -> Sess {
        let (gd, _) = make_store();
        let dm = RFsmExpressionDatamodel::new(gd.clone());
        Sess { gd, dm }
    }
    fn step(&mut self, src: &str, source_id: usize) -> Outcome {
        let dm = &mut self.dm;
        let r = catch_unwind(AssertUnwindSafe(|| {
            dm.execute(&Data::Source(SourceCode::new(src, source_id)))
                .map(|v| v.arc.try_lock().ok().and_then(|g| data_to_rv(&g)).map(|x| x.show()))
        }));
        match r {
            Ok(Ok(Some(s))) => Outcome::Ok(s),
            Ok(Ok(None)) => Outcome::Ok("<none-or-unrenderable>".into()),
            Ok(Err(_)) => Outcome::Err,
            Err(_) => {
                let p = take_panics();
                let d = p
                    .last()
                    .map(|x| format!("{} at {}", x.1.chars().take(60).collect::<String>(), x.2))
                    .unwrap_or_default();
                Outcome::Panic(d)
            }
        }
    }
    /// every lock reachable from the store is free and unpoisoned (cycles are followed once)
    fn health(&self) -> Vec<String> {
        let mut out = vec![];
        let roots: Vec<(String, DataArc)> = match self.gd.try_lock() {
            Ok(g) => g.data.map.iter().map(|(k, v)| (k.clone(), v.clone())).collect(),
            Err(std::sync::TryLockError::Poisoned(_)) => {
                out.push("global data poisoned".to_string());
                return out;
            }
            Err(std::sync::TryLockError::WouldBlock) => {
                out.push("global data left locked".to_string());
                return out;
            }
        };
        let mut seen: Vec<*const std::sync::Mutex<Data>> = vec![];
        let mut todo: Vec<(String, DataArc)> = roots;
        while let Some((path, a)) = todo.pop() {
            let p = Arc::as_ptr(&a.arc);
            if seen.contains(&p) {
                continue;
            }
            seen.push(p);
            let children: Vec<(String, DataArc)> = match a.arc.try_lock() {
                Ok(g) => match &*g {
                    Data::Array(v) => v.iter().enumerate().map(|(i, c)| (format!("{}[{}]", path, i), c.clone())).collect(),
                    Data::Map(m) => m.iter().map(|(k, c)| (format!("{}.{}", path, k), c.clone())).collect(),
                    _ => vec![],
                },
                Err(std::sync::TryLockError::Poisoned(_)) => {
                    out.push(format!("value '{}' poisoned", path));
                    vec![]
                }
                Err(std::sync::TryLockError::WouldBlock) => {
                    out.push(format!("value '{}' left locked", path));
                    vec![]
                }
            };
            todo.extend(children);
        }
        out.sort();
        out
    }
}

fn is_pure_literal(stmt: &str) -> bool {
    stmt.starts_with('[') || stmt.starts_with('{')
}

/// The per-sequence check: the same statements on two stores, one through the compilation cache (source id =
/// statement number, so a repeated statement is a cache hit), one compiled afresh every time.
fn check_seq(prop: &str, src: &str) -> (Vec<(String, String, String)>, u64, Vec<String>) {
    let stmts: Vec<&str> = src.split('\n').collect();
    let mut viol = vec![];
    let mut classes = vec![];
    let mut cached = Sess::new();
    let mut fresh = Sess::new();
    let mut evals = 0u64;
    let mut literal_value: HashMap<&str, Outcome> = HashMap::new();
    let mut trace = vec![];
    for (k, st) in stmts.iter().enumerate() {
        let sid = SEQ_STMTS.iter().position(|x| x == st).map(|p| p + 1).unwrap_or(1000 + k);
        let oc = cached.step(st, sid);
        let of = fresh.step(st, 0);
        evals += 2;
        trace.push(format!("{:?} -> cached {:?} / fresh {:?}", st, oc, of));
        classes.push(oc.class());
        if prop == "C11" {
            for o in [&oc, &of] {
                if let Outcome::Panic(p) = o {
                    let site = p.rsplit(" at ").next().unwrap_or("").to_string();
                    viol.push(("panic".to_string(), format!("panic:seq:{}", site), format!("statement {} of {:?} panics: {}", k + 1, stmts, p)));
                }
            }
            let mut h = cached.health();
            h.extend(fresh.health());
            if !h.is_empty() {
                viol.push(("store-health".to_string(), "store-health:seq".into(), format!("after statement {} of {:?}: {}", k + 1, stmts, h.join(", "))));
                break;
            }
        } else {
            // the text of a map depends on the iteration order of that HashMap instance (two stores hold two
            // instances): for toString only the kind of outcome is compared
            let same = if st.contains("toString") { oc.class() == of.class() } else { oc == of };
            if !same {
                viol.push((
                    "cache-differs".to_string(),
                    "cache-differs:seq".to_string(),
                    format!("statement {} of {:?}: through the compilation cache {:?}, compiled afresh {:?}; trace: {}", k + 1, stmts, oc, of, trace.join(" ; ")),
                ));
                break;
            }
            if is_pure_literal(st) {
                if let Some(prev) = literal_value.get(st) {
                    if *prev != oc {
                        viol.push((
                            "value".to_string(),
                            "literal-value-depends-on-history".to_string(),
                            format!("the literal {:?} evaluated to {:?} first and to {:?} later in {:?}", st, prev, oc, stmts),
                        ));
                        break;
                    }
                } else {
                    literal_value.insert(st, oc.clone());
                }
            }
        }
    }
    if prop == "C10" {
        // the stores must have the same contents at the end (top-level rendering)
        let render_store = |s: &Sess| -> Vec<(String, String)> {
            let mut v: Vec<(String, String)> = match s.gd.try_lock() {
                Ok(g) => g
                    .data
                    .map
                    .iter()
                    .map(|(k, a)| (k.clone(), a.arc.try_lock().ok().and_then(|d| data_to_rv(&d)).map(|x| x.show()).unwrap_or("<unrenderable>".into())))
                    .collect(),
                Err(_) => vec![("<store locked>".into(), String::new())],
            };
            v.sort();
            v
        };
        let (a, b) = (render_store(&cached), render_store(&fresh));
        if a != b && viol.is_empty() {
            let diff: Vec<String> = a.iter().zip(b.iter()).filter(|(x, y)| x != y).map(|(x, y)| format!("{}: cached {} / fresh {}", x.0, x.1, y.1)).collect();
            viol.push(("cache-differs".to_string(), "cache-differs:seq-store".to_string(), format!("after {:?} the data stores differ: {}", stmts, diff.join("; "))));
        }
    }
    (viol, evals, classes)
}

// ------------------------------------------------------------------------------------------ families (C10)

fn operands(rich: bool) -> Vec<Ast> {
    let mut v = vec![
        Ast::Int(7),
        Ast::Int(2),
        Ast::Dbl(2.5),
        Ast::Var("i".into()),
    ];
    if rich {
        v.extend(vec![
            Ast::Int(-3),
            Ast::Var("e1".into()),
            Ast::Str("a".into()),
            Ast::Bool(true),
            Ast::Bool(false),
            Ast::Var("s".into()),
            Ast::Var("big".into()),
            Ast::Var("arr".into()),
            Ast::ArrLit(vec![Ast::Int(1)]),
            Ast::MapLit(vec![("k".into(), Ast::Int(2))]),
            Ast::Member(Box::new(Ast::Var("m".into())), "k".into()),
            Ast::Index(Box::new(Ast::Var("arr".into())), Box::new(Ast::Int(1))),
            // containers of different sizes that share keys / elements (merge order and override rules)
            Ast::Var("m".into()),
            Ast::MapLit(vec![("k".into(), Ast::Int(3)), ("j".into(), Ast::Int(1))]),
            Ast::MapLit(vec![("j".into(), Ast::Int(9)), ("k".into(), Ast::Int(8)), ("b".into(), Ast::Int(7))]),
            Ast::ArrLit(vec![Ast::Int(2), Ast::Int(3)]),
            Ast::ArrLit(vec![]),
            Ast::MapLit(vec![]),
        ]);
    }
    v
}

/// all binary-operator trees with exactly `nops` operators over the operand menu; calls f for each
fn gen_trees(nops: usize, ops: &[Op], leaves: &[Ast], f: &mut dyn FnMut(Ast)) {
    if nops == 0 {
        for l in leaves {
            f(l.clone());
        }
        return;
    }
    for left_ops in 0..nops {
        let right_ops = nops - 1 - left_ops;
        let mut lefts = vec![];
        gen_trees(left_ops, ops, leaves, &mut |a| lefts.push(a));
        let mut rights = vec![];
        gen_trees(right_ops, ops, leaves, &mut |a| rights.push(a));
        for op in ops {
            for l in &lefts {
                for r in &rights {
                    f(Ast::Bin(op.clone(), Box::new(l.clone()), Box::new(r.clone())));
                }
            }
        }
    }
}

fn c10_items(thorough: bool, f: &mut dyn FnMut(Ast)) {
    let all_ops = Op::all();
    let rich = operands(true);
    let slim = operands(false);
    // 0..=2 operators over the rich operand menu
    for n in 0..=2 {
        if n == 2 && !thorough {
            // quick: two operators over a medium menu
            let medium: Vec<Ast> = rich.iter().take(9).cloned().collect();
            gen_trees(2, &all_ops, &medium, f);
        } else {
            gen_trees(n, &all_ops, &rich, f);
        }
    }
    // 3 operators over numeric operands: every operator sequence
    let num3: Vec<Ast> = if thorough { slim.clone() } else { slim.iter().take(3).cloned().collect() };
    gen_trees(3, &all_ops, &num3, f);
    if thorough {
        let num4: Vec<Ast> = vec![Ast::Int(7), Ast::Dbl(2.5)];
        let arith = vec![Op::Mul, Op::Div, Op::Mod, Op::Add, Op::Sub, Op::Lt, Op::Eq];
        gen_trees(4, &arith, &num4, f);
    }
    // unary not, assignment, initialisation on top of 0..1 operator trees
    let mut inner = vec![];
    gen_trees(0, &all_ops, &rich, &mut |a| inner.push(a));
    gen_trees(1, &all_ops, &slim, &mut |a| inner.push(a));
    for a in inner {
        f(Ast::Not(Box::new(a.clone())));
        f(Ast::Not(Box::new(Ast::Not(Box::new(a.clone())))));
        f(Ast::Assign("i".into(), Box::new(a.clone())));
        f(Ast::Assign("u".into(), Box::new(a.clone())));
        f(Ast::Assign("ro".into(), Box::new(a.clone())));
        f(Ast::Init("u".into(), Box::new(a.clone())));
        f(Ast::Init("i".into(), Box::new(a)));
    }
}

// ------------------------------------------------------------------------------------------ string literals (C10)

/// Reference for the README rule "characters as specified in JSON; '"', "'", '\\' and control characters escaped":
/// the text a string literal body stands for. None: not a well-formed body.
fn ref_unescape(body: &str) -> Option<String> {
    let cs: Vec<char> = body.chars().collect();
    let mut out = String::new();
    let mut i = 0;
    let hex4 = |cs: &[char], at: usize| -> Option<u32> {
        if at + 4 > cs.len() {
            return None;
        }
        let s: String = cs[at..at + 4].iter().collect();
        if s.chars().all(|c| c.is_ascii_hexdigit()) {
            u32::from_str_radix(&s, 16).ok()
        } else {
            None
        }
    };
    while i < cs.len() {
        if cs[i] != '\\' {
            out.push(cs[i]);
            i += 1;
            continue;
        }
        i += 1;
        let e = *cs.get(i)?;
        i += 1;
        match e {
            '"' | '\'' | '\\' | '/' => out.push(e),
            'b' => out.push('\u{8}'),
            'f' => out.push('\u{c}'),
            'n' => out.push('\n'),
            'r' => out.push('\r'),
            't' => out.push('\t'),
            'u' => {
                let hi = hex4(&cs, i)?;
                i += 4;
                if (0xd800..0xdc00).contains(&hi) {
                    // JSON: a character outside the basic plane is written as a surrogate pair
                    if cs.get(i) == Some(&'\\') && cs.get(i + 1) == Some(&'u') {
                        let lo = hex4(&cs, i + 2)?;
                        if (0xdc00..0xe000).contains(&lo) {
                            i += 6;
                            out.push(char::from_u32(0x10000 + ((hi - 0xd800) << 10) + (lo - 0xdc00))?);
                            continue;
                        }
                    }
                    return None;
                }
                out.push(char::from_u32(hi)?);
            }
            _ => return None,
        }
    }
    Some(out)
}

/// (source, expected text) of the string-literal family
fn strlit_cases() -> Vec<(String, String, bool)> {
    let bodies = [
        "\\\"", "\\\\", "\\/", "\\b", "\\f", "\\n", "\\r", "\\t", "\\'", "\\u0041", "\\u00e9", "\\u00E9", "\\u20ac", "\\u20AC", "\\uFFFD", "\\ufffd", "\\u007f", "\\u00ff",
        "\\u0fff", "\\uabcd", "\\uABCD", "\\ud83d\\ude00", "\\uD83D\\uDE00", "\u{e9}", "\u{20ac}", "\u{1f600}", "a b", "",
    ];
    let mut v = vec![];
    for b in bodies {
        let exp = match ref_unescape(b) {
            Some(e) => e,
            None => continue,
        };
        let pair = b.to_ascii_lowercase().contains("\\ud83d");
        for q in ["'", "\""] {
            // an unescaped delimiter can not be part of the body
            if b.contains(q) && !b.contains('\\') {
                continue;
            }
            v.push((format!("{q}{b}{q}", q = q, b = b), exp.clone(), pair));
            v.push((format!("{q}ab{b}cd{q}", q = q, b = b), format!("ab{}cd", exp), pair));
            v.push((format!("{q}{b}{b}{q}", q = q, b = b), format!("{}{}", exp, exp), pair));
            v.push((format!("{q}{b}{q} + {q}x{q}", q = q, b = b), format!("{}x", exp), pair));
        }
    }
    v
}

// ------------------------------------------------------------------------------------------ worker

#[derive(Default)]
struct State {
    next: u64,
    /// Some(batch_end): previous process died inside the batch starting at `next`: go one by one
    careful_until: Option<u64>,
    in_flight: Option<u64>,
    out: WorkerOut,
    hangs: u64,
}

fn load_state(ctx: &Ctx) -> State {
    let mut st = State::default();
    if let Some(p) = &ctx.out {
        if let Ok(txt) = std::fs::read_to_string(format!("{}.state", p)) {
            if let Ok(v) = serde_json::from_str::<Value>(&txt) {
                st.next = v["next"].as_u64().unwrap_or(0);
                st.careful_until = v["careful_until"].as_u64();
                st.in_flight = v["in_flight"].as_u64();
                st.hangs = v["hangs"].as_u64().unwrap_or(0);
                if let Some(m) = v["counters"].as_object() {
                    for (k, x) in m {
                        st.out.counters.insert(k.clone(), x.as_u64().unwrap_or(0));
                    }
                }
                if let Some(a) = v["violations"].as_array() {
                    st.out.violations = a.clone();
                }
                if let Some(a) = v["samples"].as_array() {
                    st.out.samples = a.clone();
                }
                if let Some(a) = v["outcomes"].as_array() {
                    for o in a {
                        if let Some(s) = o.as_str() {
                            st.out.outcomes.insert(s.to_string());
                        }
                    }
                }
            }
        }
    }
    st
}

fn save_state(ctx: &Ctx, st: &State) {
    if let Some(p) = &ctx.out {
        let v = json!({
            "next": st.next,
            "careful_until": st.careful_until,
            "in_flight": st.in_flight,
            "hangs": st.hangs,
            "counters": st.out.counters,
            "violations": st.out.violations,
            "samples": st.out.samples,
            "outcomes": st.out.outcomes.iter().collect::<Vec<_>>(),
        });
        let tmp = format!("{}.state.tmp", p);
        std::fs::write(&tmp, serde_json::to_string(&v).unwrap()).unwrap();
        std::fs::rename(&tmp, format!("{}.state", p)).unwrap();
    }
}

struct Case {
    index: u64,
    family: &'static str,
    src: String,
    ast: Option<Ast>,
}

/// The per-case check. Returns (violations as (clause, sig, detail)), evaluation count.
fn check_case(prop: &str, c: &Case) -> (Vec<(String, String, String)>, u64, Vec<String>) {
    let mut viol = vec![];
    let mut classes = vec![];
    let mut evals = 0;
    if c.family == "seq" {
        return check_seq(prop, &c.src);
    }
    if c.family == "strlit" {
        let cases = strlit_cases();
        let (exp, pair) = match cases.iter().find(|x| x.0 == c.src) {
            Some(x) => (x.1.clone(), x.2),
            None => return (viol, 0, classes),
        };
        let (raw, _) = evaluate(&c.src, 0, 1, true);
        let (dmc, _) = evaluate(&c.src, c.index as usize * 4 + 1, 2, false);
        let want = Outcome::Ok(RV::Str(exp.clone()).show());
        classes.push(raw[0].class());
        for (how, got) in [("compiled afresh", &raw[0]), ("through the cache", &dmc[0]), ("from the cache", &dmc[1])] {
            if *got != want {
                let sig = if pair { "string-literal:surrogate-pair" } else { "string-literal:escape" };
                viol.push(("value".to_string(), sig.to_string(), format!("the string literal {} stands for {:?} (README: characters and escapes as specified in JSON); {} rFSM gives {:?}", c.src, exp, how, got)));
                break;
            }
        }
        return (viol, 3, classes);
    }
    if prop == "C11" {
        for (sid, times) in [(0usize, 1usize), (c.index as usize + 1, 2)] {
            let (outs, health) = evaluate(&c.src, sid, times, false);
            evals += times as u64;
            for o in &outs {
                classes.push(o.class());
                if let Outcome::Panic(p) = o {
                    let site = p.rsplit(" at ").next().unwrap_or("").to_string();
                    viol.push(("panic".to_string(), format!("panic:{}", site), format!("source {:?} panics: {}", c.src, p)));
                }
            }
            for h in health {
                if !outs.iter().any(|o| matches!(o, Outcome::Panic(_))) {
                    viol.push(("store-health".to_string(), "store-health".into(), format!("after evaluating {:?}: {}", c.src, h)));
                }
            }
        }
        // the same source as a condition (guards, <if>): Datamodel::execute_condition converts the value to a truth value
        {
            let mut s = Sess::new();
            let dm = &mut s.dm;
            let src = c.src.clone();
            let r = catch_unwind(AssertUnwindSafe(|| dm.execute_condition(&Data::Source(SourceCode::new(&src, 0))).is_ok()));
            evals += 1;
            match r {
                Ok(ok) => classes.push(format!("cond:{}", if ok { "ok" } else { "err" })),
                Err(_) => {
                    let p = take_panics();
                    let d = p.last().map(|x| format!("{} at {}", x.1.chars().take(60).collect::<String>(), x.2)).unwrap_or_default();
                    let site = d.rsplit(" at ").next().unwrap_or("").to_string();
                    viol.push(("panic".to_string(), format!("panic:condition:{}", site), format!("source {:?} evaluated as a condition panics: {}", c.src, d)));
                }
            }
            if !viol.iter().any(|v| v.0 == "panic") {
                for h in s.health() {
                    viol.push(("store-health".to_string(), "store-health:condition".into(), format!("after evaluating {:?} as a condition: {}", c.src, h)));
                }
            }
        }
    } else {
        // C10
        let ast = c.ast.as_ref().unwrap();
        // The TEXT of a map with several entries follows the iteration order of that HashMap instance. Where such a
        // map can end up inside a string (map + string), two evaluations legitimately differ by a permutation of the
        // entries: string outcomes of such expressions are compared as multisets of characters.
        fn multi_map(a: &Ast) -> bool {
            match a {
                Ast::MapLit(m) => m.len() > 1 || m.iter().any(|(_, x)| multi_map(x)),
                Ast::Var(v) => v == "m" || v == "mm",
                Ast::ArrLit(v) => v.iter().any(multi_map),
                Ast::Bin(_, l, r) => multi_map(l) || multi_map(r),
                Ast::Not(x) | Ast::Assign(_, x) | Ast::Init(_, x) => multi_map(x),
                Ast::Member(x, _) => multi_map(x),
                Ast::Index(x, y) => multi_map(x) || multi_map(y),
                _ => false,
            }
        }
        let mm = multi_map(ast);
        let canon = |o: &Outcome| -> Outcome {
            match o {
                Outcome::Ok(s) if mm && s.contains("S:") => {
                    let mut ch: Vec<char> = s.chars().collect();
                    ch.sort();
                    Outcome::Ok(ch.into_iter().collect())
                }
                x => x.clone(),
            }
        };
        let mut st = ref_store();
        let j = eval(ast, &mut st, &["ro"]);
        let mut raws: Vec<(String, Outcome)> = vec![];
        for style in [Style::Plain, Style::Tight, Style::Redundant] {
            let src = render(ast, style);
            let (raw, _) = evaluate(&src, 0, 1, true);
            let (dmf, _) = evaluate(&src, 0, 1, false);
            let (dmc, _) = evaluate(&src, (c.index as usize) * 4 + 1 + style as usize, 2, false);
            evals += 4;
            if canon(&dmf[0]) != canon(&dmc[0]) || canon(&dmf[0]) != canon(&dmc[1]) {
                viol.push((
                    "cache-differs".to_string(),
                    "cache-differs".to_string(),
                    format!("{:?}: compiled afresh {:?}, through the cache first {:?} then {:?}", src, dmf[0], dmc[0], dmc[1]),
                ));
            }
            raws.push((format!("{:?} {:?}", style, src), raw[0].clone()));
        }
        let first = raws[0].1.clone();
        classes.push(first.class());
        if let Some((w, o)) = raws.iter().find(|(_, o)| canon(o) != canon(&first)) {
            viol.push((
                "rendering-differs".to_string(),
                "rendering-differs".to_string(),
                format!("{}: {:?} but {}: {:?}", raws[0].0, first, w, o),
            ));
        } else {
            match (&j, &first) {
                (Judg::Unjudged, _) => classes.push("unjudged".into()),
                (Judg::Val(v), Outcome::Ok(s)) if v.show() == *s || canon(&Outcome::Ok(v.show())) == canon(&first) => {}
                (Judg::Error, Outcome::Err) => {}
                (Judg::Val(v), o) => {
                    let sig = classify_c10(ast);
                    viol.push((
                        "value".to_string(),
                        sig,
                        format!("{}: language defines {} , rFSM gives {:?}", raws[0].0, v.show(), o),
                    ));
                }
                (Judg::Error, o) => {
                    viol.push((
                        "value".to_string(),
                        "error-expected".into(),
                        format!("{}: language defines an error, rFSM gives {:?}", raws[0].0, o),
                    ));
                }
            }
        }
    }
    (viol, evals, classes)
}

/// coarse signature of a C10 value disagreement: which structural feature is involved
fn classify_c10(a: &Ast) -> String {
    fn chain(a: &Ast) -> bool {
        // left-nested chain of equal precedence operators: (x op y) op z
        match a {
            Ast::Bin(op, l, r) => {
                let here = matches!(&**l, Ast::Bin(lo, _, _) if lo.prec() == op.prec());
                here || chain(l) || chain(r)
            }
            Ast::Not(x) | Ast::Assign(_, x) | Ast::Init(_, x) => chain(x),
            _ => false,
        }
    }
    if chain(a) {
        "value:equal-precedence-chain".into()
    } else {
        "value:other".into()
    }
}

fn worker(ctx: &Ctx) {
    silence_stdout();
    globals();
    let mut st = load_state(ctx);
    let thorough = ctx.thorough();
    // resolve the crash protocol
    if let Some(idx) = st.in_flight.take() {
        // the previous process died while evaluating exactly this input
        let src = case_by_index(ctx, thorough, idx).map(|c| c.src).unwrap_or_default();
        let sig = if src.len() > 200 {
            // which recursive construct is nested (the depth is reported in the detail text)
            let kind = if src.starts_with('(') {
                "parentheses"
            } else if src.starts_with("[") {
                "array-literal"
            } else if src.starts_with("1 +") {
                "operator-chain"
            } else if src.starts_with('!') {
                "not-chain"
            } else if src.starts_with("arr[") {
                "index-chain"
            } else if src.starts_with('{') {
                "map-literal"
            } else {
                "other"
            };
            format!("process-abort:deep-nesting:{}", kind)
        } else {
            format!("process-abort:{}", src)
        };
        st.out.violation(
            ctx,
            "process-abort",
            &sig,
            &format!("the process died (stack overflow / abort) while evaluating input #{}: {:?} (length {})", idx, src.chars().take(80).collect::<String>(), src.len()),
            json!({"engine":"e2","index": idx, "source": src.chars().take(4000).collect::<String>()}),
        );
        st.next = idx + 1;
        save_state(ctx, &st);
    }
    let w = ctx.worker.unwrap_or(0) as u64;
    let n = ctx.workers as u64;
    const BATCH: u64 = 2048;
    // checkpoints are written every CKPT batches; after a crash the span since the checkpoint is redone one by one
    const CKPT: u64 = 16;
    let mut since_ckpt = 0u64;
    // evaluator thread with rFSM's session-thread stack size (std default)
    let (tx, rx) = mpsc::channel::<(u64, u64, bool)>();
    let (rtx, rrx) = mpsc::channel::<Vec<(u64, Vec<(String, String, String)>, u64, Vec<String>, String)>>();
    let current = Arc::new(AtomicUsize::new(usize::MAX));
    let cur2 = current.clone();
    let ctx2 = ctx.clone();
    std::thread::Builder::new()
        .name("evaluator".into())
        .spawn(move || {
            let items = CaseSource::new(&ctx2, thorough);
            let _ = rtx.send(vec![(items.total(), vec![], 0, vec![], "ready".to_string())]);
            while let Ok((from, to, _careful)) = rx.recv() {
                let mut res = vec![];
                let mut i = from;
                while i < to {
                    if i % n == w {
                        if let Some(c) = items.get(i) {
                            cur2.store(i as usize, Ordering::SeqCst);
                            let (v, e, cl) = check_case(&ctx2.prop, &c);
                            res.push((i, v, e, cl, c.src.clone()));
                        }
                    }
                    i += 1;
                }
                cur2.store(usize::MAX, Ordering::SeqCst);
                if rtx.send(res).is_err() {
                    break;
                }
            }
        })
        .unwrap();
    // the evaluator thread builds the case list first (no watchdog on that)
    let total = rrx.recv().expect("evaluator ready")[0].0;
    let mut done = st.next >= total;
    // set when the previous process ended abnormally inside a span: redo that span one input at a time
    let careful_mode_until: Option<u64> = st.careful_until.take();
    while !done {
        let from = st.next;
        let careful = careful_mode_until.map(|u| from < u).unwrap_or(false);
        let to = if careful { from + 1 } else { (from + BATCH).min(total) };
        if !careful {
            // mark: if we die before the next checkpoint, redo the span carefully
            if since_ckpt == 0 {
                st.careful_until = Some((from + BATCH * CKPT).min(total));
                save_state(ctx, &st);
            }
        } else {
            st.in_flight = Some(from);
            st.careful_until = careful_mode_until;
            save_state(ctx, &st);
            st.in_flight = None;
            st.careful_until = None;
        }
        tx.send((from, to, careful)).unwrap();
        // the nesting ladder and boundary families (last ones) contain very long inputs: generous watchdog there
        let long_inputs = to + 400 > total;
        match rrx.recv_timeout(Duration::from_secs(if long_inputs { 180 } else if careful { 3 } else { 6 })) {
            Ok(res) => {
                for (i, viol, evals, classes, src) in res {
                    st.out.add("evaluations", evals);
                    st.out.add("inputs", 1);
                    for c in classes {
                        if st.out.outcomes.len() < 300 {
                            st.out.outcomes.insert(c);
                        }
                    }
                    if viol.is_empty() && st.out.samples.len() < 3 && i % 977 == 5 {
                        st.out.sample(json!({"index": i, "source": src}));
                    }
                    for (clause, sig, detail) in viol {
                        // one replay per signature is enough; count the rest
                        st.out.add(&format!("violations_{}", sig.replace(|c: char| !c.is_alphanumeric(), "_")), 1);
                        if !st.out.violations.iter().any(|v| v["sig"] == sig.as_str()) {
                            st.out.violation(ctx, &clause, &sig, &detail, json!({"engine":"e2","index": i, "source": src}));
                        }
                    }
                }
                st.next = to;
                if !careful {
                    since_ckpt += 1;
                    if since_ckpt >= CKPT || to >= total {
                        since_ckpt = 0;
                        st.careful_until = None;
                        save_state(ctx, &st);
                    }
                } else {
                    since_ckpt = 0;
                    st.careful_until = careful_mode_until;
                    save_state(ctx, &st);
                    st.careful_until = None;
                }
            }
            Err(_) => {
                // hang: the evaluator thread is stuck on input `current`
                let idx = current.load(Ordering::SeqCst) as u64;
                let src = case_by_index(ctx, thorough, idx).map(|c| c.src).unwrap_or_default();
                st.hangs += 1;
                st.out.add("hangs", 1);
                if !st.out.violations.iter().any(|v| v["sig"] == "no-termination") || st.hangs < 4 {
                    st.out.violation(
                        ctx,
                        "does-not-terminate",
                        &hang_sig(&src),
                        &format!("evaluating {:?} did not return within the watchdog time (non-termination or blocked on its own data lock)", src),
                        json!({"engine":"e2","index": idx, "source": src}),
                    );
                }
                st.next = idx + 1;
                // continue carefully to the end of this batch so that nothing is skipped silently
                st.careful_until = Some(to.max(idx + 1));
                st.in_flight = None;
                save_state(ctx, &st);
                if st.hangs > 60 {
                    st.out.flag("aborted_after_many_hangs", true);
                    st.next = total;
                    save_state(ctx, &st);
                }
                // the evaluator thread is lost: restart the process
                std::process::exit(3);
            }
        }
        done = st.next >= total;
    }
    st.out.add("cases_total", if w == 0 { total } else { 0 });
    st.out.write(ctx);
}

/// signature of a hang: the shape of the input, not its text
fn hang_sig(src: &str) -> String {
    if src.contains('\n') || SEQ_STMTS.contains(&src) {
        // a statement sequence: name the last statement's kind only (the full sequence is in the replay file)
        return "no-termination:seq".into();
    }
    let t = src.trim_end();
    if t.ends_with('!') || t.ends_with('<') || t.ends_with('>') || t.ends_with('=') {
        "no-termination:source-ends-in-operator-prefix-char".into()
    } else {
        "no-termination:other".into()
    }
}

struct CaseSource {
    prop: String,
    fams: Vec<Family>,
    c10: Vec<Ast>,
    seq_lens: Vec<usize>,
}

impl CaseSource {
    fn new(ctx: &Ctx, thorough: bool) -> CaseSource {
        let mut c10 = vec![];
        let mut fams = vec![];
        if ctx.prop == "C10" {
            c10_items(thorough, &mut |a| c10.push(a));
        } else {
            fams = c11_families(thorough);
        }
        CaseSource {
            prop: ctx.prop.clone(),
            fams,
            c10,
            seq_lens: seq_lens(thorough),
        }
    }
    fn seq_total(&self) -> u64 {
        self.seq_lens.iter().map(|l| seq_count(*l)).sum()
    }
    fn total(&self) -> u64 {
        self.seq_total()
            + if self.prop == "C10" {
                self.c10.len() as u64 + strlit_cases().len() as u64
            } else {
                self.fams.iter().map(|f| f.count).sum()
            }
    }
    fn get(&self, mut i: u64) -> Option<Case> {
        // the statement-sequence family comes first (short inputs; the long-input ladders must stay last)
        let idx = i;
        for l in &self.seq_lens {
            if i < seq_count(*l) {
                return Some(Case {
                    index: idx,
                    family: "seq",
                    src: seq_source(*l, i),
                    ast: None,
                });
            }
            i -= seq_count(*l);
        }
        if self.prop == "C10" {
            let sl = strlit_cases();
            if (i as usize) < sl.len() {
                return Some(Case {
                    index: idx,
                    family: "strlit",
                    src: sl[i as usize].0.clone(),
                    ast: None,
                });
            }
            i -= sl.len() as u64;
            let a = self.c10.get(i as usize)?;
            return Some(Case {
                index: idx,
                family: "ast",
                src: render(a, Style::Plain),
                ast: Some(a.clone()),
            });
        }
        for f in &self.fams {
            if i < f.count {
                return Some(Case {
                    index: idx,
                    family: f.name,
                    src: (f.gen)(i),
                    ast: None,
                });
            }
            i -= f.count;
        }
        None
    }
}

fn total_cases(ctx: &Ctx, thorough: bool) -> u64 {
    CaseSource::new(ctx, thorough).total()
}

fn case_by_index(ctx: &Ctx, thorough: bool, idx: u64) -> Option<Case> {
    CaseSource::new(ctx, thorough).get(idx)
}

fn replay(ctx: &Ctx, path: &str) -> i32 {
    globals();
    let v: Value = serde_json::from_str(&std::fs::read_to_string(path).expect("replay file")).expect("json");
    let src = v["source"].as_str().unwrap_or("").to_string();
    let idx = v["index"].as_u64().unwrap_or(0);
    eprintln!("replaying #{}: {:?}", idx, src);
    let clause = v["clause"].as_str().unwrap_or("");
    if clause == "does-not-terminate" || clause == "process-abort" {
        // run in a thread with a watchdog
        let (tx, rx) = mpsc::channel();
        let s2 = src.clone();
        std::thread::spawn(move || {
            let r = if s2.contains('\n') || SEQ_STMTS.contains(&s2.as_str()) {
                format!("{:?}", check_seq("C11", &s2).0)
            } else {
                format!("{:?}", evaluate(&s2, 0, 1, false))
            };
            let _ = tx.send(r);
        });
        match rx.recv_timeout(Duration::from_secs(5)) {
            Ok(r) => {
                eprintln!("returned: {}", r);
                return 0;
            }
            Err(_) => {
                eprintln!("no result within 5 s: VIOLATION reproduced");
                println!("VIOLATION property={} replay={}", ctx.prop, path);
                std::process::exit(1);
            }
        }
    }
    let thorough = v["tier"].as_str() == Some("thorough") || ctx.thorough();
    let c = match case_by_index(ctx, thorough, idx) {
        Some(c) if c.src == src || (ctx.prop == "C10" && c.family != "seq" && !src.contains('\n')) => c,
        _ => Case {
            index: idx,
            family: if src.contains('\n') || SEQ_STMTS.contains(&src.as_str()) { "seq" } else { "replay" },
            src: src.clone(),
            ast: None,
        },
    };
    let mut rc = 0;
    for round in 0..2 {
        let (viol, _, _) = check_case(&ctx.prop, &c);
        eprintln!("round {}: {} violation(s)", round, viol.len());
        for (cl, sig, d) in &viol {
            eprintln!("  {} [{}] {}", cl, sig, d);
            rc = 1;
        }
    }
    if rc == 1 {
        println!("VIOLATION property={} replay={}", ctx.prop, path);
    }
    rc
}

fn main() {
    let ctx = parse_args();
    if let Some(p) = &ctx.replay {
        std::process::exit(replay(&ctx, p));
    }
    if ctx.worker.is_some() {
        worker(&ctx);
        return;
    }
    let agg = run_workers_resumable(&ctx, 400);
    let (rule, assumptions): (&str, Vec<String>) = if ctx.prop == "C11" {
        (
            "every string over a 24-character alphabet up to the length bound, longer strings over a 16-character core alphabet, every token sequence up to the bound (spaced and unspaced) over a 48-token alphabet whose identifiers are bound to Integer/Double/String/Boolean/Null/Array/aliased Array/nested Map/read-only values plus one undefined name, a nesting-depth ladder 2^k and numeric boundary operands; each evaluated uncached and twice through the compilation cache on a fresh data store on a thread with the default stack; oracle: returns a value or an error within the watchdog time, no panic, no process abort, every lock of the store free and unpoisoned afterwards",
            vec![
                "hang detection is a wall-clock watchdog (20 s per batch of 512 inputs, 5 s per single input)".into(),
                "one data store content (listed in harness/src/bin/e2.rs make_store)".into(),
                "the depth ladder is a listed family, not a claim about all depths".into(),
            ],
        )
    } else {
        (
            "every expression tree with up to 2 operators over 13 binary operators and a 15-value operand menu (literals, variables, array/map literals, member and index access), every tree with 3 operators over numeric operands (thorough: 4 operators over 7 operators x 2 operands), unary not, assignment and initialisation on top; each rendered with minimal parentheses (spaced and tight) and with redundant parentheses/whitespace; evaluated fresh, and twice through the compilation cache; oracle: all renderings and cache paths agree, and the value equals the reference evaluator's wherever the language documentation defines it",
            vec![
                "reference semantics in harness/src/refexpr.rs: precedence table of parser.rs, left-to-right grouping, README operator semantics; undocumented operand combinations are not judged".into(),
                "one data store content".into(),
            ],
        )
    };
    let spec = EvidenceSpec {
        level: "model_checking",
        rule,
        assumptions,
        states_key: "inputs",
        transitions_key: "evaluations",
        validated_key: "evaluations",
        cap_flags: vec!["aborted_after_many_hangs"],
        extra: Map::new(),
    };
    std::process::exit(conclude(&ctx, &agg, spec));
}

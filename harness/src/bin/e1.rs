//! E1: explicit-state search over real rFSM sessions (one session, harness paced).

use serde_json::{json, Map};
use vh::doc::*;
use vh::explore::*;
use vh::gen::*;
use vh::infra::*;

/// One item of a family: a document plus exploration options.
struct Item {
    label: String,
    doc: Doc,
    opts: Opts,
    sig_hint: String,
}

type Sink<'a> = &'a mut dyn FnMut(Item);

fn base_doc(f: &[Tree], hist: &[(usize, bool)]) -> Doc {
    let mut d = build(f, hist);
    std_marks(&mut d);
    d
}

/// docs of a shape with 0 or 1 history pseudo-state (each legal parent / type / default target)
fn hist_variants(f: &[Tree], with_hist: bool) -> Vec<(String, Doc)> {
    let mut out = vec![("nohist".to_string(), base_doc(f, &[]))];
    if with_hist {
        for o in inner_ordinals(f) {
            for deep in [false, true] {
                let d0 = base_doc(f, &[(o, deep)]);
                let h = d0.nodes.iter().position(|n| n.kind.is_history()).unwrap();
                for t in history_defaults(&d0, h) {
                    let mut d = d0.clone();
                    set_history_default(&mut d, h, t);
                    out.push((
                        format!("h{}{}>{}", o, if deep { "d" } else { "s" }, d0.nodes[t].name),
                        d,
                    ));
                }
            }
        }
    }
    out
}

/// F1: every candidate transition on its own event; complete reachable graph.
fn family_singles(n: usize, with_hist: bool, pairs: bool, internal_everywhere: bool, opts: &Opts, sink: Sink) {
    for f in shapes_upto(n) {
        for (hl, d0) in hist_variants(&f, with_hist) {
            let mut d = d0.clone();
            let cands: Vec<Cand> = candidates(&d, pairs, internal_everywhere, true)
                .into_iter()
                .filter(|c| !is_hist_inside(&d0, c))
                .collect();
            for (i, c) in cands.iter().enumerate() {
                add_trans(&mut d, c, Some(&format!("t{}", i)), None, "");
            }
            sink(Item {
                label: format!("singles {:?} {}", shape_str(&f), hl),
                doc: d,
                opts: opts.clone(),
                sig_hint: String::new(),
            });
        }
    }
}

/// F1h: as singles, plus exactly one transition that targets a history pseudo-state from inside the
/// history's parent (kept apart: the W3C algorithm itself misbehaves on these, see known findings).
fn family_hist_inside(n: usize, opts: &Opts, sink: Sink) {
    for f in shapes_upto(n) {
        for (hl, d0) in hist_variants(&f, true) {
            let all = candidates(&d0, false, false, true);
            let normal: Vec<Cand> = all.iter().filter(|c| !is_hist_inside(&d0, c)).cloned().collect();
            for (j, hc) in all.iter().filter(|c| is_hist_inside(&d0, c)).enumerate() {
                let mut d = d0.clone();
                for (i, c) in normal.iter().enumerate() {
                    add_trans(&mut d, c, Some(&format!("t{}", i)), None, "");
                }
                add_trans(&mut d, hc, Some("hi"), None, "hist-inside");
                sink(Item {
                    label: format!("histinside {:?} {} #{}", shape_str(&f), hl, j),
                    doc: d,
                    opts: opts.clone(),
                    sig_hint: String::new(),
                });
            }
        }
    }
}

fn shape_str(f: &[Tree]) -> String {
    fn rec(t: &Tree, s: &mut String) {
        s.push(match t.kind {
            K::S => 'S',
            K::P => 'P',
            K::F => 'F',
        });
        if !t.children.is_empty() {
            s.push('(');
            for c in &t.children {
                rec(c, s);
            }
            s.push(')');
        }
    }
    let mut s = String::new();
    for t in f {
        rec(t, &mut s);
    }
    s
}

/// F2: two transitions on the same event whose sources can be active together; every root initial spec.
fn family_pairs(n: usize, with_hist: bool, opts: &Opts, sink: Sink) {
    for f in shapes_upto(n) {
        if count_states(&f) < 2 {
            continue;
        }
        for (hl, d0) in hist_variants(&f, with_hist) {
            let cands: Vec<Cand> = candidates(&d0, false, false, true)
                .into_iter()
                .filter(|c| !is_hist_inside(&d0, c))
                .collect();
            let inits = {
                let mut v = vec![None];
                for s in initial_specs(&d0, 0, true) {
                    v.push(Some(s));
                }
                v
            };
            for (ia, a) in cands.iter().enumerate() {
                for (ib, b) in cands.iter().enumerate() {
                    let related = a.src == b.src
                        || d0.is_descendant(a.src, b.src)
                        || d0.is_descendant(b.src, a.src)
                        || d0.legal_target_set(&[a.src, b.src]);
                    if !related {
                        continue;
                    }
                    if a.src == b.src && ia >= ib {
                        // same source: order matters only once per unordered pair with a guard on the first
                        continue;
                    }
                    for init in &inits {
                        // only initial specs that activate both sources can enable both transitions
                        let mut d = d0.clone();
                        d.nodes[0].initial_attr = init.clone();
                        if a.src == b.src {
                            // first one guarded by In(x) for the first atomic descendant/other state
                            let guard_state = d.nodes[(1..d.nodes.len()).find(|x| !d.is_history(*x) && *x != a.src).unwrap_or(a.src)].name.clone();
                            add_trans(&mut d, a, Some("e"), Some(Expr::In(guard_state)), "A");
                            add_trans(&mut d, b, Some("e"), None, "B");
                        } else {
                            add_trans(&mut d, a, Some("e"), None, "A");
                            add_trans(&mut d, b, Some("e"), None, "B");
                        }
                        sink(Item {
                            label: format!("pairs {} {} a{} b{} init{:?}", shape_str(&f), hl, ia, ib, init),
                            doc: d,
                            opts: opts.clone(),
                            sig_hint: String::new(),
                        });
                    }
                }
            }
        }
    }
}

fn families(ctx: &Ctx, sink: Sink) {
    let thorough = ctx.thorough();
    match ctx.prop.as_str() {
        "C01" => {
            let o = Opts {
                use_reference: false,
                check_legality: true,
                ..Opts::default()
            };
            family_singles(4, true, true, thorough, &o, sink);
            family_pairs(if thorough { 4 } else { 3 }, thorough, &o, sink);
            family_hist_inside(3, &o, sink);
        }
        "C02" => {
            let o = Opts {
                twice: thorough,
                ..Opts::default()
            };
            family_singles(4, true, true, thorough, &o, sink);
            family_pairs(if thorough { 4 } else { 3 }, thorough, &o, sink);
            family_hist_inside(3, &o, sink);
        }
        _ => panic!("e1: unknown property {}", ctx.prop),
    }
}

fn worker(ctx: &Ctx) {
    silence_stdout();
    let mut out = WorkerOut::default();
    let mut index = 0usize;
    let only: Option<usize> = ctx
        .extra
        .iter()
        .position(|x| x == "--only")
        .map(|p| ctx.extra[p + 1].parse().unwrap());
    let limit: Option<usize> = ctx
        .extra
        .iter()
        .position(|x| x == "--limit")
        .map(|p| ctx.extra[p + 1].parse().unwrap());
    let mut stop = false;
    let mut hard = 0;
    families(ctx, &mut |item: Item| {
        let my = index;
        index += 1;
        if stop || !ctx.mine(my) {
            return;
        }
        if let Some(o) = only {
            if o != my {
                return;
            }
        }
        if let Some(l) = limit {
            if my >= l {
                return;
            }
        }
        if let Some(o) = &ctx.out {
            let _ = std::fs::write(format!("{}.progress", o), format!("{} {}", my, item.label));
        }
        let mut ex = Explorer::new(&item.doc, item.opts.clone());
        ex.sig_hint = item.sig_hint.clone();
        ex.explore();
        let r = &ex.rep;
        out.add("documents", 1);
        out.add("states", r.states as u64);
        out.add("edges", r.edges as u64);
        out.add("runs", r.runs as u64);
        out.add("macrosteps", r.macrosteps as u64);
        out.add("microsteps", r.microsteps as u64);
        out.add("ref_comparisons", r.ref_comparisons as u64);
        out.add("replays_equal", r.replays_equal as u64);
        out.add("burst_equal", r.burst_equal as u64);
        out.add("mark_snapshots_checked", r.marks_checked as u64);
        out.add("legal_configuration_checks", r.legal_checks as u64);
        out.max("depth", r.max_depth_seen as u64);
        out.max("states_per_doc", r.states as u64);
        out.flag("depth_cap_hit", r.depth_capped);
        out.flag("state_cap_hit", r.state_capped);
        for c in &r.distinct_cfgs {
            if out.outcomes.len() < 5000 {
                out.outcomes.insert(format!("{}|{:?}", shape_of_label(&item.label), c));
            }
        }
        if let Some(s) = &r.sample {
            if r.states > 2 {
                out.sample(json!({"family_item": item.label, "index": my, "explored": s, "states": r.states, "edges": r.edges}));
            }
        }
        for v in r.violations.iter().chain(r.soft_violations.iter()) {
            out.violation(
                ctx,
                &v.clause,
                &v.sig,
                &format!("{} | item #{} {}", v.detail, my, item.label),
                json!({"engine":"e1","index": my, "label": item.label, "history": v.history, "xml": ex.xml}),
            );
        }
        if r.violations.len() > 0 {
            hard += 1;
        }
        if hard >= 5 {
            stop = true;
        }
    });
    out.add("items_enumerated", if ctx.worker == Some(0) || ctx.worker.is_none() { index as u64 } else { 0 });
    out.write(ctx);
}

fn shape_of_label(l: &str) -> String {
    l.split(' ').take(2).collect::<Vec<_>>().join(" ")
}

fn replay(ctx: &Ctx, path: &str) -> i32 {
    let txt = std::fs::read_to_string(path).expect("replay file");
    let v: serde_json::Value = serde_json::from_str(&txt).expect("replay json");
    let index = v["index"].as_u64().unwrap() as usize;
    let history: Vec<String> = v["history"]
        .as_array()
        .unwrap()
        .iter()
        .map(|x| x.as_str().unwrap().to_string())
        .collect();
    let mut found = None;
    let mut i = 0usize;
    families(ctx, &mut |item: Item| {
        if i == index {
            found = Some(item);
        }
        i += 1;
    });
    let item = found.expect("item index not in family");
    eprintln!("replaying item #{} {}\nhistory {:?}\n{}", index, item.label, history, item.doc.to_xml());
    let mut rc = 0;
    for round in 0..2 {
        let mut ex = Explorer::new(&item.doc, item.opts.clone());
        let ok = ex.replay_history(&history);
        eprintln!("round {}: {}", round, if ok { "no violation" } else { "VIOLATION reproduced" });
        for v in &ex.rep.violations {
            eprintln!("  clause={} history={:?}\n  {}", v.clause, v.history, v.detail);
        }
        if !ok {
            rc = 1;
        }
    }
    if rc == 1 {
        println!("VIOLATION property={} replay={}", ctx.prop, path);
    }
    rc
}

fn main() {
    let ctx = parse_args();
    if let Some(p) = &ctx.replay {
        std::process::exit(replay(&ctx, p));
    }
    if ctx.worker.is_some() {
        worker(&ctx);
        return;
    }
    let agg = run_workers(&ctx);
    let (rule, level_assumptions): (&str, Vec<String>) = match ctx.prop.as_str() {
        "C01" => (
            "every kinded ordered state tree up to the size bound (x history variants) with every candidate transition on its own event (family 'singles') and every pair of simultaneously enable-able transitions on one event from every legal root initial specification (family 'pairs'); complete reachable graph of canonical idle states per document; a state is (configuration, history values, data values); invariants of a legal configuration evaluated after start-up and after every microstep, enter/exit discipline inside microsteps, live configuration snapshots from the mark action",
            vec![
                "documents are the generated families; larger documents are not covered".into(),
                "observation through the public Tracer callbacks and a custom Action reading GlobalData.configuration".into(),
                "a wall-clock watchdog (20 s without reaching the idle point) is the only hang detector".into(),
            ],
        ),
        _ => (
            "same document families as C01; every edge (one external event = one macrostep of a real session) is compared observation by observation (selected transitions by document position, exit order, content marks, entry order, internal events) and state by state with the reference interpreter; the same history re-executed must reproduce the identical trace",
            vec![
                "reference interpreter in /verif/harness/src/refint.rs is the oracle for the W3C algorithm".into(),
                "larger documents than the size bound are not covered (the property text allows sampling there; this family does not sample)".into(),
            ],
        ),
    };
    let spec = EvidenceSpec {
        level: "model_checking",
        rule,
        assumptions: level_assumptions,
        states_key: "states",
        transitions_key: "edges",
        validated_key: if ctx.prop == "C01" { "legal_configuration_checks" } else { "ref_comparisons" },
        cap_flags: vec!["depth_cap_hit", "state_cap_hit"],
        extra: Map::new(),
    };
    let rc = conclude(&ctx, &agg, spec);
    std::process::exit(rc);
}

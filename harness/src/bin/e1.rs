//! E1: explicit-state search over real rFSM sessions (one session, harness paced).

use serde_json::{json, Map};
use vh::doc::*;
use vh::explore::*;
use vh::gen::*;
use vh::infra::*;

/// One item of a family: a document plus exploration options.
struct Item {
    label: String,
    doc: Doc,
    opts: Opts,
    sig_hint: String,
}

type Sink<'a> = &'a mut dyn FnMut(Item);

fn base_doc(f: &[Tree], hist: &[(usize, bool)]) -> Doc {
    let mut d = build(f, hist);
    std_marks(&mut d);
    d
}

/// docs of a shape with 0 or 1 history pseudo-state (each legal parent / type / default target)
fn hist_variants(f: &[Tree], with_hist: bool) -> Vec<(String, Doc)> {
    let mut out = vec![("nohist".to_string(), base_doc(f, &[]))];
    if with_hist {
        for o in inner_ordinals(f) {
            for deep in [false, true] {
                let d0 = base_doc(f, &[(o, deep)]);
                let h = d0.nodes.iter().position(|n| n.kind.is_history()).unwrap();
                for t in history_defaults(&d0, h) {
                    let mut d = d0.clone();
                    set_history_default(&mut d, h, t);
                    out.push((
                        format!("h{}{}>{}", o, if deep { "d" } else { "s" }, d0.nodes[t].name),
                        d,
                    ));
                }
            }
        }
    }
    out
}

/// F1: every candidate transition on its own event; complete reachable graph.
fn family_singles(n: usize, with_hist: bool, pairs: bool, internal_everywhere: bool, opts: &Opts, sink: Sink) {
    for f in shapes_upto(n) {
        for (hl, d0) in hist_variants(&f, with_hist) {
            let mut d = d0.clone();
            let cands: Vec<Cand> = candidates(&d, pairs, internal_everywhere, true)
                .into_iter()
                .filter(|c| !is_hist_inside(&d0, c))
                .collect();
            for (i, c) in cands.iter().enumerate() {
                add_trans(&mut d, c, Some(&format!("t{}", i)), None, "");
            }
            sink(Item {
                label: format!("singles {:?} {}", shape_str(&f), hl),
                doc: d,
                opts: opts.clone(),
                sig_hint: String::new(),
            });
        }
    }
}

/// F1h: as singles, plus exactly one transition that targets a history pseudo-state from inside the
/// history's parent (kept apart: the W3C algorithm itself misbehaves on these, see known findings).
fn family_hist_inside(n: usize, opts: &Opts, sink: Sink) {
    for f in shapes_upto(n) {
        for (hl, d0) in hist_variants(&f, true) {
            let all = candidates(&d0, false, false, true);
            let normal: Vec<Cand> = all.iter().filter(|c| !is_hist_inside(&d0, c)).cloned().collect();
            for (j, hc) in all.iter().filter(|c| is_hist_inside(&d0, c)).enumerate() {
                let mut d = d0.clone();
                for (i, c) in normal.iter().enumerate() {
                    add_trans(&mut d, c, Some(&format!("t{}", i)), None, "");
                }
                add_trans(&mut d, hc, Some("hi"), None, "hist-inside");
                sink(Item {
                    label: format!("histinside {:?} {} #{}", shape_str(&f), hl, j),
                    doc: d,
                    opts: opts.clone(),
                    sig_hint: String::new(),
                });
            }
        }
    }
}

fn shape_str(f: &[Tree]) -> String {
    fn rec(t: &Tree, s: &mut String) {
        s.push(match t.kind {
            K::S => 'S',
            K::P => 'P',
            K::F => 'F',
        });
        if !t.children.is_empty() {
            s.push('(');
            for c in &t.children {
                rec(c, s);
            }
            s.push(')');
        }
    }
    let mut s = String::new();
    for t in f {
        rec(t, &mut s);
    }
    s
}

/// F2: two transitions on the same event whose sources can be active together; every root initial spec.
fn family_pairs(n: usize, with_hist: bool, opts: &Opts, sink: Sink) {
    for f in shapes_upto(n) {
        if count_states(&f) < 2 {
            continue;
        }
        for (hl, d0) in hist_variants(&f, with_hist) {
            let cands: Vec<Cand> = candidates(&d0, false, false, true)
                .into_iter()
                .filter(|c| !is_hist_inside(&d0, c))
                .collect();
            let inits = {
                let mut v = vec![None];
                for s in initial_specs(&d0, 0, true) {
                    v.push(Some(s));
                }
                v
            };
            for (ia, a) in cands.iter().enumerate() {
                for (ib, b) in cands.iter().enumerate() {
                    let related = a.src == b.src
                        || d0.is_descendant(a.src, b.src)
                        || d0.is_descendant(b.src, a.src)
                        || d0.legal_target_set(&[a.src, b.src]);
                    if !related {
                        continue;
                    }
                    if a.src == b.src && ia >= ib {
                        // same source: order matters only once per unordered pair with a guard on the first
                        continue;
                    }
                    for init in &inits {
                        // only initial specs that activate both sources can enable both transitions
                        let mut d = d0.clone();
                        d.nodes[0].initial_attr = init.clone();
                        if a.src == b.src {
                            // first one guarded by In(x) for the first atomic descendant/other state
                            let guard_state = d.nodes[(1..d.nodes.len()).find(|x| !d.is_history(*x) && *x != a.src).unwrap_or(a.src)].name.clone();
                            add_trans(&mut d, a, Some("e"), Some(Expr::In(guard_state)), "A");
                            add_trans(&mut d, b, Some("e"), None, "B");
                        } else {
                            add_trans(&mut d, a, Some("e"), None, "A");
                            add_trans(&mut d, b, Some("e"), None, "B");
                        }
                        sink(Item {
                            label: format!("pairs {} {} a{} b{} init{:?}", shape_str(&f), hl, ia, ib, init),
                            doc: d,
                            opts: opts.clone(),
                            sig_hint: String::new(),
                        });
                    }
                }
            }
        }
    }
}

/// C19: probe documents: one parallel state, one region per descriptor list, targetless transitions.
fn family_descriptors(pairs: bool, opts: &Opts, sink: Sink) {
    let toks = ["a", "ab", "b", "A", "\u{e9}", "\u{e9}e"];
    let mut lists: Vec<Vec<String>> = vec![];
    for a in toks {
        lists.push(vec![a.to_string()]);
        for b in toks {
            lists.push(vec![a.to_string(), b.to_string()]);
        }
    }
    // descriptors with an inner empty token
    lists.push(vec!["a".into(), "".into(), "b".into()]);
    lists.push(vec!["\u{e9}".into(), "".into(), "a".into()]);
    let mut descs: Vec<String> = vec!["*".to_string()];
    for l in &lists {
        let base = l.join(".");
        descs.push(base.clone());
        descs.push(format!("{}.", base));
        descs.push(format!("{}.*", base));
    }
    let mut dlists: Vec<String> = descs.clone();
    if pairs {
        for a in &descs {
            for b in &descs {
                if a != b {
                    dlists.push(format!("{} {}", a, b));
                }
            }
        }
    }
    // event names: 1..3 tokens over the alphabet incl. the empty token (not all empty)
    let ntoks = ["a", "ab", "b", "A", "\u{e9}", "\u{e9}e", ""];
    let mut names: Vec<String> = vec![];
    for a in ntoks {
        if !a.is_empty() {
            names.push(a.to_string());
        }
        for b in ntoks {
            let n2 = format!("{}.{}", a, b);
            if n2 != "." {
                names.push(n2);
            }
            for c in ntoks {
                let n3 = format!("{}.{}.{}", a, b, c);
                if n3 != ".." {
                    names.push(n3);
                }
            }
        }
    }
    names.sort();
    names.dedup();
    let per_doc = 24;
    for (ci, chunk) in dlists.chunks(per_doc).enumerate() {
        let mut d = Doc::new();
        let p = d.add(0, "p", Kind::Parallel);
        for (i, dl) in chunk.iter().enumerate() {
            let r = d.add(p, &format!("r{}", i), Kind::State);
            d.nodes[r].trans.push(Trans {
                events: dl.split(' ').map(|x| x.to_string()).collect(),
                cond: None,
                targets: vec![],
                internal: false,
                content: vec![],
            });
        }
        let mut o = opts.clone();
        o.extra_events = names.clone();
        o.alphabet_only_extra = true;
        sink(Item {
            label: format!("descriptors chunk{} [{}]", ci, chunk.join(" | ")),
            doc: d,
            opts: o,
            sig_hint: String::new(),
        });
    }
}

/// C03: queue-order documents. Three flat states in a ring; every transition trigger from a menu
/// (external event, internal events, guarded eventless), every content block from a producer menu.
fn family_queues(thorough: bool, opts: &Opts, sink: Sink) {
    let triggers: Vec<(Vec<String>, Option<Expr>)> = vec![
        (vec!["e1".into()], None),
        (vec!["x".into()], None),
        (vec!["y".into()], None),
        (vec![], Some(Expr::VarLt("v".into(), 2))),
        (vec!["error.execution".into()], None),
    ];
    let mut producers: Vec<Vec<Stmt>> = vec![
        vec![],
        vec![Stmt::Raise("x".into())],
        vec![Stmt::Raise("x".into()), Stmt::Raise("y".into())],
        vec![Stmt::Raise("y".into()), Stmt::SendInternal("x".into())],
        vec![Stmt::SendSelf("e1".into()), Stmt::Raise("y".into())],
        vec![Stmt::Assign("undeclared".into(), Expr::Int(1)), Stmt::Raise("x".into())],
    ];
    if !thorough {
        producers.truncate(5);
    }
    let ntrig = if thorough { triggers.len() } else { 4 };
    let mut idx = 0usize;
    for t1 in 0..ntrig {
        for t2 in 0..ntrig {
            for t3 in 0..ntrig {
                for p1 in 0..producers.len() {
                    for p2 in 0..producers.len() {
                        for pe in 0..producers.len() {
                            if !thorough && (p1 + p2 + pe) % 2 == 1 && pe > 1 {
                                // quick tier: the listed sub-family with pe in {0,1} or even index sum
                                continue;
                            }
                            idx += 1;
                            let mut d = Doc::new();
                            d.nodes[0].data.push(("v".into(), Some(Expr::Int(0))));
                            let s1 = d.add(0, "s1", Kind::State);
                            let s2 = d.add(0, "s2", Kind::State);
                            let s3 = d.add(0, "s3", Kind::State);
                            std_marks(&mut d);
                            let mk = |d: &mut Doc, src: Nx, tgt: Nx, t: usize, p: usize| {
                                let (ev, cond) = triggers[t].clone();
                                let mut content = vec![Stmt::Mark(vec!["t".into(), d.nodes[src].name.clone()])];
                                if ev.is_empty() {
                                    content.push(Stmt::Assign("v".into(), Expr::VarPlus("v".into(), 1)));
                                }
                                content.extend(producers[p].clone());
                                d.nodes[src].trans.push(Trans {
                                    events: ev,
                                    cond,
                                    targets: vec![tgt],
                                    internal: false,
                                    content,
                                });
                            };
                            mk(&mut d, s1, s2, t1, p1);
                            mk(&mut d, s2, s3, t2, p2);
                            mk(&mut d, s3, s1, t3, 0);
                            d.nodes[s2].onentry.push(producers[pe].clone());
                            // a wildcard-free catch of stray internal events, targetless, lowest priority
                            sink(Item {
                                label: format!("queues #{} t{}{}{} p{}{} e{}", idx, t1, t2, t3, p1, p2, pe),
                                doc: d,
                                opts: opts.clone(),
                                sig_hint: String::new(),
                            });
                        }
                    }
                }
            }
        }
    }
}

/// C06: documents with two history pseudo-states (all parent / type combinations), singles exploration.
fn family_two_histories(n: usize, opts: &Opts, sink: Sink) {
    for f in shapes_upto(n) {
        let inner = inner_ordinals(&f);
        for (i, a) in inner.iter().enumerate() {
            for b in inner.iter().skip(i) {
                for (da, db) in [(false, true), (true, false), (false, false), (true, true)] {
                    if a == b && da == db {
                        continue;
                    }
                    if a == b && da {
                        continue; // (shallow, deep) in the same parent listed once
                    }
                    let d0 = base_doc(&f, &[(*a, da), (*b, db)]);
                    let hs: Vec<Nx> = (0..d0.nodes.len()).filter(|x| d0.is_history(*x)).collect();
                    if hs.len() != 2 {
                        continue;
                    }
                    // default targets: first legal one for each (all combinations of first/last)
                    let d1 = history_defaults(&d0, hs[0]);
                    let d2 = history_defaults(&d0, hs[1]);
                    for t1 in [d1.first(), d1.last()] {
                        for t2 in [d2.first(), d2.last()] {
                            let (t1, t2) = match (t1, t2) {
                                (Some(x), Some(y)) => (*x, *y),
                                _ => continue,
                            };
                            let mut d = d0.clone();
                            set_history_default(&mut d, hs[0], t1);
                            set_history_default(&mut d, hs[1], t2);
                            let cands: Vec<Cand> = candidates(&d, false, false, true)
                                .into_iter()
                                .filter(|c| !is_hist_inside(&d0, c))
                                .collect();
                            for (i, c) in cands.iter().enumerate() {
                                add_trans(&mut d, c, Some(&format!("t{}", i)), None, "");
                            }
                            sink(Item {
                                label: format!("twohist {:?} {}{} {}{} >{} >{}", shape_str(&f), a, da, b, db, t1, t2),
                                doc: d,
                                opts: opts.clone(),
                                sig_hint: String::new(),
                            });
                        }
                    }
                }
            }
        }
    }
}

/// C07: shapes that contain final states; transitions triggered by done.state events make their
/// processing observable; donedata with params / content on every nested final.
fn family_finals(n: usize, opts: &Opts, sink: Sink) {
    for f in shapes_upto(n) {
        if !has_kind(&f, &K::F) {
            continue;
        }
        for variant in 0..3 {
            let mut d = base_doc(&f, &[]);
            d.nodes[0].data.push(("v".into(), Some(Expr::Int(7))));
            let cands: Vec<Cand> = candidates(&d, true, false, true);
            for (i, c) in cands.iter().enumerate() {
                add_trans(&mut d, c, Some(&format!("t{}", i)), None, "");
            }
            // observers for done events on the root's first child chain
            for s in 1..d.nodes.len() {
                if matches!(d.nodes[s].kind, Kind::State | Kind::Parallel) {
                    let nm = d.nodes[s].name.clone();
                    d.nodes[s].trans.push(Trans {
                        events: vec!["done.state".into()],
                        cond: None,
                        targets: vec![],
                        internal: false,
                        content: vec![Stmt::MarkE(vec!["done-seen-in".into(), nm], Expr::EvName)],
                    });
                }
                if d.nodes[s].kind == Kind::Final && d.nodes[s].parent != Some(0) {
                    match variant {
                        1 => {
                            d.nodes[s].donedata = Some(DoneData {
                                params: vec![("p".into(), Expr::Var("v".into())), ("q".into(), Expr::Int(2))],
                                content: None,
                            })
                        }
                        2 => {
                            d.nodes[s].donedata = Some(DoneData {
                                params: vec![],
                                content: Some(Expr::VarPlus("v".into(), 1)),
                            })
                        }
                        _ => {}
                    }
                }
            }
            sink(Item {
                label: format!("finals {:?} v{}", shape_str(&f), variant),
                doc: d,
                opts: opts.clone(),
                sig_hint: String::new(),
            });
        }
    }
}

fn families(ctx: &Ctx, sink: Sink) {
    let thorough = ctx.thorough();
    match ctx.prop.as_str() {
        "C01" => {
            let o = Opts {
                use_reference: false,
                check_legality: true,
                ..Opts::default()
            };
            family_singles(4, true, true, thorough, &o, sink);
            family_pairs(if thorough { 4 } else { 3 }, thorough, &o, sink);
            family_hist_inside(3, &o, sink);
        }
        "C02" => {
            let o = Opts {
                twice: thorough,
                ..Opts::default()
            };
            family_singles(4, true, true, thorough, &o, sink);
            family_pairs(if thorough { 4 } else { 3 }, thorough, &o, sink);
            family_hist_inside(3, &o, sink);
        }
        "C03" => {
            let o = Opts {
                burst: true,
                ..Opts::default()
            };
            family_queues(thorough, &o, sink);
        }
        "C06" => {
            let o = Opts::default();
            // shapes with one history state (every parent, type, default target), all transitions
            for f in shapes_upto(if thorough { 5 } else { 4 }) {
                if inner_ordinals(&f).is_empty() {
                    continue;
                }
                if count_states(&f) == 5 && depth(&f) < 3 {
                    continue;
                }
                for (hl, d0) in hist_variants(&f, true).into_iter().skip(1) {
                    let mut d = d0.clone();
                    let cands: Vec<Cand> = candidates(&d, count_states(&f) < 5, false, true)
                        .into_iter()
                        .filter(|c| !is_hist_inside(&d0, c))
                        .collect();
                    for (i, c) in cands.iter().enumerate() {
                        add_trans(&mut d, c, Some(&format!("t{}", i)), None, "");
                    }
                    sink(Item {
                        label: format!("history {:?} {}", shape_str(&f), hl),
                        doc: d,
                        opts: o.clone(),
                        sig_hint: String::new(),
                    });
                }
            }
            family_two_histories(if thorough { 4 } else { 3 }, &o, sink);
            let oi = Opts {
                check_legality: true,
                ..Opts::default()
            };
            family_hist_inside(3, &oi, sink);
        }
        "C07" => {
            let o = Opts {
                cancel_everywhere: true,
                burst: true,
                ..Opts::default()
            };
            family_finals(if thorough { 5 } else { 4 }, &o, sink);
        }
        "C19" => {
            let o = Opts::default();
            family_descriptors(thorough, &o, sink);
        }
        _ => panic!("e1: unknown property {}", ctx.prop),
    }
}

fn worker(ctx: &Ctx) {
    silence_stdout();
    let mut out = WorkerOut::default();
    let mut index = 0usize;
    let only: Option<usize> = ctx
        .extra
        .iter()
        .position(|x| x == "--only")
        .map(|p| ctx.extra[p + 1].parse().unwrap());
    let limit: Option<usize> = ctx
        .extra
        .iter()
        .position(|x| x == "--limit")
        .map(|p| ctx.extra[p + 1].parse().unwrap());
    let mut stop = false;
    let mut hard = 0;
    families(ctx, &mut |item: Item| {
        let my = index;
        index += 1;
        if stop || !ctx.mine(my) {
            return;
        }
        if let Some(o) = only {
            if o != my {
                return;
            }
        }
        if let Some(l) = limit {
            if my >= l {
                return;
            }
        }
        if let Some(o) = &ctx.out {
            let _ = std::fs::write(format!("{}.progress", o), format!("{} {}", my, item.label));
        }
        let mut ex = Explorer::new(&item.doc, item.opts.clone());
        ex.sig_hint = item.sig_hint.clone();
        ex.explore();
        let r = &ex.rep;
        out.add("documents", 1);
        out.add("states", r.states as u64);
        out.add("edges", r.edges as u64);
        out.add("runs", r.runs as u64);
        out.add("macrosteps", r.macrosteps as u64);
        out.add("microsteps", r.microsteps as u64);
        out.add("ref_comparisons", r.ref_comparisons as u64);
        out.add("replays_equal", r.replays_equal as u64);
        out.add("burst_equal", r.burst_equal as u64);
        out.add("mark_snapshots_checked", r.marks_checked as u64);
        out.add("legal_configuration_checks", r.legal_checks as u64);
        out.max("depth", r.max_depth_seen as u64);
        out.max("states_per_doc", r.states as u64);
        out.flag("depth_cap_hit", r.depth_capped);
        out.flag("state_cap_hit", r.state_capped);
        for c in &r.distinct_cfgs {
            if out.outcomes.len() < 5000 {
                out.outcomes.insert(format!("{}|{:?}", shape_of_label(&item.label), c));
            }
        }
        if let Some(s) = &r.sample {
            if r.states > 2 || out.samples.is_empty() {
                out.sample(json!({"family_item": item.label, "index": my, "explored": s, "states": r.states, "edges": r.edges}));
            }
        }
        for v in r.violations.iter().chain(r.soft_violations.iter()) {
            out.violation(
                ctx,
                &v.clause,
                &v.sig,
                &format!("{} | item #{} {}", v.detail, my, item.label),
                json!({"engine":"e1","index": my, "label": item.label, "history": v.history, "xml": ex.xml}),
            );
        }
        if r.violations.len() > 0 {
            hard += 1;
        }
        if hard >= 5 {
            stop = true;
        }
    });
    out.add("items_enumerated", if ctx.worker == Some(0) || ctx.worker.is_none() { index as u64 } else { 0 });
    out.write(ctx);
}

fn shape_of_label(l: &str) -> String {
    l.split(' ').take(2).collect::<Vec<_>>().join(" ")
}

fn replay(ctx: &Ctx, path: &str) -> i32 {
    let txt = std::fs::read_to_string(path).expect("replay file");
    let v: serde_json::Value = serde_json::from_str(&txt).expect("replay json");
    let index = v["index"].as_u64().unwrap() as usize;
    let history: Vec<String> = v["history"]
        .as_array()
        .unwrap()
        .iter()
        .map(|x| x.as_str().unwrap().to_string())
        .collect();
    let mut found = None;
    let mut i = 0usize;
    families(ctx, &mut |item: Item| {
        if i == index {
            found = Some(item);
        }
        i += 1;
    });
    let item = found.expect("item index not in family");
    eprintln!("replaying item #{} {}\nhistory {:?}\n{}", index, item.label, history, item.doc.to_xml());
    let mut rc = 0;
    for round in 0..2 {
        let mut ex = Explorer::new(&item.doc, item.opts.clone());
        let ok = ex.replay_history(&history);
        eprintln!("round {}: {}", round, if ok { "no violation" } else { "VIOLATION reproduced" });
        for v in &ex.rep.violations {
            eprintln!("  clause={} history={:?}\n  {}", v.clause, v.history, v.detail);
        }
        if !ok {
            rc = 1;
        }
    }
    if rc == 1 {
        println!("VIOLATION property={} replay={}", ctx.prop, path);
    }
    rc
}

fn main() {
    let ctx = parse_args();
    if let Some(p) = &ctx.replay {
        std::process::exit(replay(&ctx, p));
    }
    if ctx.worker.is_some() {
        worker(&ctx);
        return;
    }
    let agg = run_workers(&ctx);
    let common_assume: Vec<String> = vec![
        "generated document families up to the stated size bounds; larger documents are not covered".into(),
        "observation through the public Tracer callbacks, a custom Action (mark) and GlobalData read at the idle point".into(),
        "a 20 s wall-clock watchdog without reaching the idle point is the only hang detector".into(),
        "reference interpreter /verif/harness/src/refint.rs is the oracle for the W3C algorithm".into(),
    ];
    let (rule, level_assumptions): (&str, Vec<String>) = match ctx.prop.as_str() {
        "C01" => (
            "every kinded ordered state tree up to the size bound (x history variants) with every candidate transition on its own event (family 'singles') and every pair of simultaneously enable-able transitions on one event from every legal root initial specification (family 'pairs'); complete reachable graph of canonical idle states per document; a state is (configuration, history values, data values); invariants of a legal configuration evaluated after start-up and after every microstep, enter/exit discipline inside microsteps, live configuration snapshots from the mark action",
            common_assume.clone(),
        ),
        "C02" => (
            "same document families as C01; every edge (one external event = one macrostep of a real session) is compared observation by observation (selected transitions by document position, exit order, content marks, entry order, internal events) and state by state with the reference interpreter; the same history re-executed must reproduce the identical trace",
            common_assume.clone(),
        ),
        "C03" => (
            "three-state ring documents: every combination of transition triggers (external, internal x/y, guarded eventless, error.execution) and content producers (raise, send #_internal, self-send, failing assign) in transitions and onentry; complete reachable graph; every edge compared with the reference order (eventless first, oldest internal event next, external last); every run replayed with all events enqueued up-front (burst) and compared",
            common_assume.clone(),
        ),
        "C06" => (
            "every kinded state tree up to the bound with one history pseudo-state (every parent, shallow/deep, every legal default target) or two history pseudo-states, every candidate transition (including history targets) on its own event; complete reachable graph covers every recordable history value; entry sets, default-transition content position and recorded history values compared with the reference on every edge",
            common_assume.clone(),
        ),
        "C07" => (
            "every kinded state tree up to the bound that contains final states, with donedata variants (none / params / content), observers for done.state events in every state, every candidate transition on its own event, the platform cancel event sent from every reachable state, and burst delivery (events queued behind the one that reaches the top-level final); traces, final configuration and done events compared with the reference",
            common_assume.clone(),
        ),
        "C19" => (
            "probe documents: one parallel state with one region per descriptor list (descriptors of 1-2 tokens over {a, ab, b, A, e-acute, e-acute+e} in the spellings d, d., d.*, plus *, plus inner empty tokens; thorough: all ordered pairs of descriptors); every event name of 1-3 tokens over the alphabet incl. the empty token is sent; the set of regions whose transition fired is compared with a token-prefix oracle",
            common_assume.clone(),
        ),
        _ => ("", common_assume.clone()),
    };
    let spec = EvidenceSpec {
        level: "model_checking",
        rule,
        assumptions: level_assumptions,
        states_key: "states",
        transitions_key: "edges",
        validated_key: if ctx.prop == "C01" { "legal_configuration_checks" } else { "ref_comparisons" },
        cap_flags: vec!["depth_cap_hit", "state_cap_hit"],
        extra: Map::new(),
    };
    let rc = conclude(&ctx, &agg, spec);
    std::process::exit(rc);
}

//! E1: explicit-state search over real rFSM sessions (one session, harness paced).

use serde_json::{json, Map};
use vh::doc::*;
use vh::explore::*;
use vh::gen::*;
use vh::infra::*;

/// One item of a family: a document plus exploration options.
struct Item {
    label: String,
    doc: Doc,
    opts: Opts,
    sig_hint: String,
}

type Sink<'a> = &'a mut dyn FnMut(Item);

fn base_doc(f: &[Tree], hist: &[(usize, bool)]) -> Doc {
    let mut d = build(f, hist);
    std_marks(&mut d);
    d
}

/// docs of a shape with 0 or 1 history pseudo-state (each legal parent / type / default target)
fn hist_variants(f: &[Tree], with_hist: bool) -> Vec<(String, Doc)> {
    let mut out = vec![("nohist".to_string(), base_doc(f, &[]))];
    if with_hist {
        for o in inner_ordinals(f) {
            for deep in [false, true] {
                let d0 = base_doc(f, &[(o, deep)]);
                let h = d0.nodes.iter().position(|n| n.kind.is_history()).unwrap();
                for t in history_defaults(&d0, h) {
                    let mut d = d0.clone();
                    set_history_default(&mut d, h, t);
                    out.push((
                        format!("h{}{}>{}", o, if deep { "d" } else { "s" }, d0.nodes[t].name),
                        d,
                    ));
                }
            }
        }
    }
    out
}

/// F1: every candidate transition on its own event; complete reachable graph.
fn family_singles(n: usize, with_hist: bool, pairs: bool, internal_everywhere: bool, opts: &Opts, sink: Sink) {
    for f in shapes_upto(n) {
        for (hl, d0) in hist_variants(&f, with_hist) {
            let mut d = d0.clone();
            let cands: Vec<Cand> = candidates(&d, pairs, internal_everywhere, true)
                .into_iter()
                .filter(|c| !is_hist_inside(&d0, c))
                .collect();
            for (i, c) in cands.iter().enumerate() {
                add_trans(&mut d, c, Some(&format!("t{}", i)), None, "");
            }
            sink(Item {
                label: format!("singles {:?} {}", shape_str(&f), hl),
                doc: d,
                opts: opts.clone(),
                sig_hint: String::new(),
            });
        }
    }
}

/// F1h: as singles, plus exactly one transition that targets a history pseudo-state from inside the
/// history's parent (kept apart: the W3C algorithm itself misbehaves on these, see known findings).
fn family_hist_inside(n: usize, opts: &Opts, sink: Sink) {
    for f in shapes_upto(n) {
        for (hl, d0) in hist_variants(&f, true) {
            let all = candidates(&d0, false, false, true);
            let normal: Vec<Cand> = all.iter().filter(|c| !is_hist_inside(&d0, c)).cloned().collect();
            for (j, hc) in all.iter().filter(|c| is_hist_inside(&d0, c)).enumerate() {
                let mut d = d0.clone();
                for (i, c) in normal.iter().enumerate() {
                    add_trans(&mut d, c, Some(&format!("t{}", i)), None, "");
                }
                add_trans(&mut d, hc, Some("hi"), None, "hist-inside");
                sink(Item {
                    label: format!("histinside {:?} {} #{}", shape_str(&f), hl, j),
                    doc: d,
                    opts: opts.clone(),
                    sig_hint: String::new(),
                });
            }
        }
    }
}

fn tr(kind: K, children: Vec<Tree>) -> Tree {
    Tree { kind, children }
}

/// Listed corpus of shapes beyond the size bound of the exhaustive families: parallel states with
/// compound regions, parallel under a compound (history over a parallel), parallel in parallel,
/// three regions, a depth-4 chain, regions with finals. Not a sample: a fixed list, each explored
/// completely.
fn corpus_shapes(thorough: bool) -> Vec<(&'static str, Vec<Tree>)> {
    let leaf = || tr(K::S, vec![]);
    let fin = || tr(K::F, vec![]);
    let reg = || tr(K::S, vec![leaf(), leaf()]);
    let mut v = vec![
        ("par2x2", vec![leaf(), tr(K::P, vec![reg(), reg()])]),
        ("par2x2-under-compound", vec![leaf(), tr(K::S, vec![tr(K::P, vec![reg(), reg()])])]),
        // done-ness of parallel states: regions with finals, a parallel directly inside a parallel (whose done-ness
        // is computed recursively), next to a region that can reach its final
        ("par-with-finals", vec![leaf(), tr(K::P, vec![tr(K::S, vec![leaf(), fin()]), tr(K::S, vec![leaf(), fin()])])]),
        ("par-in-par-with-final", vec![leaf(), tr(K::P, vec![tr(K::P, vec![leaf(), leaf()]), tr(K::S, vec![leaf(), fin()])])]),
        ("final-region-then-par", vec![leaf(), tr(K::P, vec![tr(K::S, vec![leaf(), fin()]), tr(K::P, vec![tr(K::S, vec![leaf(), fin()]), leaf()])])]),
        // a compound state (with its own final) nested inside a region, next to a region with a final: a final that
        // is not a CHILD of the region must not make the region count as done
        ("nested-final-in-region", vec![leaf(), tr(K::P, vec![tr(K::S, vec![tr(K::S, vec![leaf(), fin()]), leaf()]), tr(K::S, vec![leaf(), fin()])])]),
        // a compound state strictly inside one region (history parents at every level of it)
        ("compound-regions-deep", vec![leaf(), tr(K::P, vec![tr(K::S, vec![tr(K::S, vec![leaf(), leaf()]), leaf()]), reg()])]),
    ];
    if thorough {
        v.push(("par-in-par", vec![leaf(), tr(K::P, vec![reg(), tr(K::P, vec![reg(), reg()])])]));
        v.push(("par3", vec![leaf(), tr(K::P, vec![reg(), reg(), reg()])]));
        v.push(("chain4", vec![leaf(), tr(K::S, vec![tr(K::S, vec![tr(K::S, vec![leaf(), leaf()]), leaf()]), leaf()])]));
    }
    v
}

/// every corpus shape without history and with one history pseudo-state (every inner parent x
/// shallow/deep; quick: first legal default only, thorough: every default), all candidate transitions
/// (single targets incl. the history state, legal target pairs, internal variants) each on its own
/// event in one document; complete reachable graph.
/// `hist`: 0 = without and with history, 1 = only the variants with a history state, 2 = only without
fn family_corpus(thorough: bool, hist: u8, opts: &Opts, sink: Sink) {
    for (name, f) in corpus_shapes(thorough) {
        let mut variants: Vec<(String, Doc)> = vec![];
        if hist != 1 {
            variants.push(("nohist".into(), base_doc(&f, &[])));
        }
        for o in inner_ordinals(&f) {
            if hist == 2 || (!thorough && name == "nested-final-in-region") {
                break;
            }
            for deep in [false, true] {
                if !thorough && !deep && name == "compound-regions-deep" {
                    continue;
                }
                let d0 = base_doc(&f, &[(o, deep)]);
                let h = d0.nodes.iter().position(|n| n.kind.is_history()).unwrap();
                for (k, t) in history_defaults(&d0, h).into_iter().enumerate() {
                    if !thorough && k > 0 {
                        break;
                    }
                    let mut d = d0.clone();
                    set_history_default(&mut d, h, t);
                    variants.push((format!("h{}{}>{}", o, if deep { "d" } else { "s" }, d0.nodes[t].name), d));
                }
            }
        }
        // initial specifications with several targets (in different regions of a parallel below the state): on the
        // document root and on every compound state, as attribute and as <initial> element
        if hist != 1 {
            let d0 = base_doc(&f, &[]);
            for n in 0..d0.nodes.len() {
                if !(n == 0 || d0.is_compound(n)) {
                    continue;
                }
                let multi: Vec<Vec<Nx>> = initial_specs(&d0, n, true).into_iter().filter(|s| s.len() > 1).collect();
                for (k, spec) in multi.iter().enumerate() {
                    // quick: on the two par2x2 shapes, the specs that name a non-default child in the LAST region
                    if !thorough && (k % 3 != 2 || !name.starts_with("par2x2")) {
                        continue;
                    }
                    let mut d = d0.clone();
                    if n == 0 || k % 2 == 0 {
                        d.nodes[n].initial_attr = Some(spec.clone());
                    } else {
                        d.nodes[n].initial_elem = Some((spec.clone(), vec![Stmt::Mark(vec!["init".into(), d0.nodes[n].name.clone()])]));
                    }
                    variants.push((format!("init{}#{}", n, k), d));
                }
            }
        }
        for (hl, d0) in variants {
            let mut d = d0.clone();
            let cands: Vec<Cand> = candidates(&d, true, false, true)
                .into_iter()
                .filter(|c| !is_hist_inside(&d0, c))
                .collect();
            for (i, c) in cands.iter().enumerate() {
                add_trans(&mut d, c, Some(&format!("t{}", i)), None, "");
            }
            sink(Item {
                label: format!("corpus {} {}", name, hl),
                doc: d,
                opts: Opts { max_states: 2000, ..opts.clone() },
                sig_hint: String::new(),
            });
        }
    }
}

fn shape_str(f: &[Tree]) -> String {
    fn rec(t: &Tree, s: &mut String) {
        s.push(match t.kind {
            K::S => 'S',
            K::P => 'P',
            K::F => 'F',
        });
        if !t.children.is_empty() {
            s.push('(');
            for c in &t.children {
                rec(c, s);
            }
            s.push(')');
        }
    }
    let mut s = String::new();
    for t in f {
        rec(t, &mut s);
    }
    s
}

/// F2: two transitions on the same event whose sources can be active together; every root initial spec.
fn family_pairs(n: usize, with_hist: bool, opts: &Opts, sink: Sink) {
    for f in shapes_upto(n) {
        if count_states(&f) < 2 {
            continue;
        }
        for (hl, d0) in hist_variants(&f, with_hist) {
            let cands: Vec<Cand> = candidates(&d0, false, false, true)
                .into_iter()
                .filter(|c| !is_hist_inside(&d0, c))
                .collect();
            let inits = {
                let mut v = vec![None];
                for s in initial_specs(&d0, 0, true) {
                    v.push(Some(s));
                }
                v
            };
            for (ia, a) in cands.iter().enumerate() {
                for (ib, b) in cands.iter().enumerate() {
                    let related = a.src == b.src
                        || d0.is_descendant(a.src, b.src)
                        || d0.is_descendant(b.src, a.src)
                        || d0.legal_target_set(&[a.src, b.src]);
                    if !related {
                        continue;
                    }
                    if a.src == b.src && ia >= ib {
                        // same source: order matters only once per unordered pair with a guard on the first
                        continue;
                    }
                    for init in &inits {
                        // only initial specs that activate both sources can enable both transitions
                        let mut d = d0.clone();
                        d.nodes[0].initial_attr = init.clone();
                        if a.src == b.src {
                            // first one guarded by In(x) for the first atomic descendant/other state
                            let guard_state = d.nodes[(1..d.nodes.len()).find(|x| !d.is_history(*x) && *x != a.src).unwrap_or(a.src)].name.clone();
                            add_trans(&mut d, a, Some("e"), Some(Expr::In(guard_state)), "A");
                            add_trans(&mut d, b, Some("e"), None, "B");
                        } else {
                            add_trans(&mut d, a, Some("e"), None, "A");
                            add_trans(&mut d, b, Some("e"), None, "B");
                        }
                        sink(Item {
                            label: format!("pairs {} {} a{} b{} init{:?}", shape_str(&f), hl, ia, ib, init),
                            doc: d,
                            opts: opts.clone(),
                            sig_hint: String::new(),
                        });
                    }
                }
            }
        }
    }
}

/// C19: probe documents: one parallel state, one region per descriptor list, targetless transitions.
fn family_descriptors(pairs: bool, opts: &Opts, sink: Sink) {
    let toks = ["a", "ab", "b", "A", "\u{e9}", "\u{e9}e"];
    let mut lists: Vec<Vec<String>> = vec![];
    for a in toks {
        lists.push(vec![a.to_string()]);
        for b in toks {
            lists.push(vec![a.to_string(), b.to_string()]);
        }
    }
    // descriptors with an inner empty token
    lists.push(vec!["a".into(), "".into(), "b".into()]);
    lists.push(vec!["\u{e9}".into(), "".into(), "a".into()]);
    let mut descs: Vec<String> = vec!["*".to_string()];
    for l in &lists {
        let base = l.join(".");
        descs.push(base.clone());
        descs.push(format!("{}.", base));
        descs.push(format!("{}.*", base));
    }
    let mut dlists: Vec<String> = descs.clone();
    if pairs {
        for a in &descs {
            for b in &descs {
                if a != b {
                    dlists.push(format!("{} {}", a, b));
                }
            }
        }
    } else {
        // quick tier: every ordered pair over a core set that contains descriptors which are character
        // prefixes (but not token prefixes) of each other, in every spelling
        let core = ["a", "ab", "a.b", "ab.a", "A", "\u{e9}", "\u{e9}e", "\u{e9}.a", "a.", "a.*", "ab.*", "*"];
        for a in core {
            for b in core {
                if a != b {
                    dlists.push(format!("{} {}", a, b));
                }
            }
        }
    }
    // lists of three descriptors (an early non-matching one must not hide a later matching one)
    let core3 = ["a", "ab", "ab.a", "\u{e9}", "\u{e9}e"];
    for a in core3 {
        for b in core3 {
            for c in core3 {
                if a != b && b != c && a != c {
                    dlists.push(format!("{} {} {}", a, b, c));
                }
            }
        }
    }
    // event names: 1..3 tokens over the alphabet incl. the empty token (not all empty)
    let ntoks = ["a", "ab", "b", "A", "\u{e9}", "\u{e9}e", ""];
    let mut names: Vec<String> = vec![];
    for a in ntoks {
        if !a.is_empty() {
            names.push(a.to_string());
        }
        for b in ntoks {
            let n2 = format!("{}.{}", a, b);
            if n2 != "." {
                names.push(n2);
            }
            for c in ntoks {
                let n3 = format!("{}.{}.{}", a, b, c);
                if n3 != ".." {
                    names.push(n3);
                }
            }
        }
    }
    names.sort();
    names.dedup();
    let per_doc = 24;
    for (ci, chunk) in dlists.chunks(per_doc).enumerate() {
        let mut d = Doc::new();
        let p = d.add(0, "p", Kind::Parallel);
        for (i, dl) in chunk.iter().enumerate() {
            let r = d.add(p, &format!("r{}", i), Kind::State);
            d.nodes[r].trans.push(Trans {
                events: dl.split(' ').map(|x| x.to_string()).collect(),
                cond: None,
                targets: vec![],
                internal: false,
                content: vec![],
            });
        }
        let mut o = opts.clone();
        o.extra_events = names.clone();
        o.alphabet_only_extra = true;
        sink(Item {
            label: format!("descriptors chunk{} [{}]", ci, chunk.join(" | ")),
            doc: d,
            opts: o,
            sig_hint: String::new(),
        });
    }
}

/// C03: queue-order documents. Three flat states in a ring; every transition trigger from a menu
/// (external event, internal events, guarded eventless), every content block from a producer menu.
fn family_queues(thorough: bool, opts: &Opts, sink: Sink) {
    let triggers: Vec<(Vec<String>, Option<Expr>)> = vec![
        (vec!["e1".into()], None),
        (vec!["x".into()], None),
        (vec!["y".into()], None),
        (vec![], Some(Expr::VarLt("v".into(), 2))),
        // eventless, enabled by the internal event that was dequeued last (also one that enabled nothing else)
        (vec![], Some(Expr::EvNameEq("x".into()))),
        (vec!["error.execution".into()], None),
    ];
    let mut producers: Vec<Vec<Stmt>> = vec![
        vec![],
        vec![Stmt::Raise("x".into())],
        vec![Stmt::Raise("x".into()), Stmt::Raise("y".into())],
        vec![Stmt::Raise("y".into()), Stmt::SendInternal("x".into())],
        vec![Stmt::SendSelf("e1".into()), Stmt::Raise("y".into())],
        vec![Stmt::Assign("undeclared".into(), Expr::Int(1)), Stmt::Raise("x".into())],
    ];
    if !thorough {
        producers.truncate(5);
    }
    // quick tier: the trigger menu without the second named internal event
    let menu: Vec<usize> = if thorough { (0..triggers.len()).collect() } else { vec![0, 1, 3, 4] };
    let mut idx = 0usize;
    for &t1 in &menu {
        for &t2 in &menu {
            for &t3 in &menu {
                if t1 == 4 && t2 == 4 && t3 == 4 {
                    // a ring of eventless transitions that all stay enabled while _event is 'x' never ends its
                    // macrostep: a livelock of the document, not of the interpreter
                    continue;
                }
                for p1 in 0..producers.len() {
                    for p2 in 0..producers.len() {
                        for pe in 0..producers.len() {
                            if !thorough && (p1 + p2 + pe) % 2 == 1 && pe > 1 {
                                // quick tier: the listed sub-family with pe in {0,1} or even index sum
                                continue;
                            }
                            idx += 1;
                            let mut d = Doc::new();
                            d.nodes[0].data.push(("v".into(), Some(Expr::Int(0))));
                            let s1 = d.add(0, "s1", Kind::State);
                            let s2 = d.add(0, "s2", Kind::State);
                            let s3 = d.add(0, "s3", Kind::State);
                            std_marks(&mut d);
                            let mk = |d: &mut Doc, src: Nx, tgt: Nx, t: usize, p: usize| {
                                let (ev, cond) = triggers[t].clone();
                                let mut content = vec![Stmt::Mark(vec!["t".into(), d.nodes[src].name.clone()])];
                                if matches!(cond, Some(Expr::VarLt(..))) {
                                    content.push(Stmt::Assign("v".into(), Expr::VarPlus("v".into(), 1)));
                                }
                                content.extend(producers[p].clone());
                                d.nodes[src].trans.push(Trans {
                                    events: ev,
                                    cond,
                                    targets: vec![tgt],
                                    internal: false,
                                    content,
                                });
                            };
                            mk(&mut d, s1, s2, t1, p1);
                            mk(&mut d, s2, s3, t2, p2);
                            mk(&mut d, s3, s1, t3, 0);
                            d.nodes[s2].onentry.push(producers[pe].clone());
                            // a wildcard-free catch of stray internal events, targetless, lowest priority
                            sink(Item {
                                label: format!("queues #{} t{}{}{} p{}{} e{}", idx, t1, t2, t3, p1, p2, pe),
                                doc: d,
                                opts: opts.clone(),
                                sig_hint: String::new(),
                            });
                        }
                    }
                }
            }
        }
    }
}

/// C03: internal work produced by an external event that enables no transition. State s1 carries a
/// transition whose guard fails to evaluate (error.execution is queued, the guard counts as false) or
/// an eventless transition whose guard reads _event, next to observers for error.execution and for
/// the following external events: the internal event / the eventless transition must be handled
/// before the next external event is dequeued, however many unmatched events follow.
fn family_stranded(opts: &Opts, sink: Sink) {
    let prods: Vec<Vec<Stmt>> = vec![vec![], vec![Stmt::Raise("x".into())]];
    let mut idx = 0;
    for kind in 0..3 {
        for a_tgt in 0..2 {
            for with_err_observer in [true, false] {
                for pc in 0..prods.len() {
                    for s2_trig in 0..2 {
                        idx += 1;
                        let mut d = Doc::new();
                        d.nodes[0].data.push(("v".into(), Some(Expr::Int(0))));
                        let s1 = d.add(0, "s1", Kind::State);
                        let s2 = d.add(0, "s2", Kind::State);
                        let s3 = d.add(0, "s3", Kind::State);
                        std_marks(&mut d);
                        let tgt = if a_tgt == 0 { s2 } else { s3 };
                        let mut push = |d: &mut Doc, src: Nx, ev: Vec<String>, cond: Option<Expr>, t: Nx, tag: &str, extra: Vec<Stmt>| {
                            let mut content = vec![Stmt::Mark(vec!["t".into(), d.nodes[src].name.clone(), tag.into()])];
                            content.extend(extra);
                            d.nodes[src].trans.push(Trans { events: ev, cond, targets: vec![t], internal: false, content });
                        };
                        match kind {
                            0 => push(&mut d, s1, vec!["e1".into()], Some(Expr::Bad), tgt, "A", vec![]),
                            1 => push(&mut d, s1, vec![], Some(Expr::EvNameEq("e1".into())), tgt, "A", vec![]),
                            _ => {
                                // both: the failing guard first, then the eventless reader of _event
                                push(&mut d, s1, vec!["e1".into()], Some(Expr::Bad), tgt, "A", vec![]);
                                push(&mut d, s1, vec![], Some(Expr::EvNameEq("e2".into())), tgt, "A2", vec![]);
                            }
                        }
                        if with_err_observer {
                            push(&mut d, s1, vec!["error.execution".into()], None, s3, "B", vec![]);
                        }
                        push(&mut d, s1, vec!["e2".into()], None, s2, "C", prods[pc].clone());
                        push(&mut d, s1, vec!["x".into()], None, s3, "D", vec![]);
                        if s2_trig == 0 {
                            push(&mut d, s2, vec!["e1".into()], None, s1, "E", vec![]);
                        } else {
                            push(&mut d, s2, vec!["e1".into()], Some(Expr::Bad), s1, "E", vec![]);
                            push(&mut d, s2, vec!["error.execution".into()], None, s1, "E2", vec![]);
                        }
                        push(&mut d, s2, vec!["e2".into()], None, s3, "F", vec![]);
                        push(&mut d, s3, vec!["e2".into()], None, s1, "G", vec![]);
                        push(&mut d, s3, vec!["error.execution".into()], None, s2, "H", vec![]);
                        let mut o = opts.clone();
                        o.extra_events = vec!["noise".into()];
                        sink(Item {
                            label: format!("stranded #{} kind{} tgt{} obs{} p{} s2t{}", idx, kind, a_tgt, with_err_observer, pc, s2_trig),
                            doc: d,
                            opts: o,
                            sig_hint: String::new(),
                        });
                    }
                }
            }
        }
    }
}

/// C03: one microstep enters a final state (done.state.<parent> is queued at that moment) and, later in entry order,
/// a state whose onentry raises an event: the done event is the older internal event. Observers on the parallel
/// state make the order visible (whichever event is dequeued first leaves the parallel).
fn family_done_vs_raise(opts: &Opts, sink: Sink) {
    let mut idx = 0;
    for final_region_first in [true, false] {
        for producer_in_region in [false, true] {
            for send_internal in [false, true] {
                idx += 1;
                let mut d = Doc::new();
                let s0 = d.add(0, "s0", Kind::State);
                let p = d.add(0, "p", Kind::Parallel);
                let s9 = d.add(0, "s9", Kind::State);
                let mk_final_region = |d: &mut Doc| -> (Nx, Nx, Nx) {
                    let r = d.add(p, "r1", Kind::State);
                    let a = d.add(r, "a", Kind::State);
                    let f = d.add(r, "f1", Kind::Final);
                    (r, a, f)
                };
                let mk_prod_region = |d: &mut Doc| -> (Nx, Nx, Nx) {
                    let r = d.add(p, "r2", Kind::State);
                    let b = d.add(r, "b", Kind::State);
                    let c = d.add(r, "c", Kind::State);
                    (r, b, c)
                };
                let ((_r1, a, f1), (r2, b, c)) = if final_region_first {
                    let x = mk_final_region(&mut d);
                    let y = mk_prod_region(&mut d);
                    (x, y)
                } else {
                    let y = mk_prod_region(&mut d);
                    let x = mk_final_region(&mut d);
                    (x, y)
                };
                std_marks(&mut d);
                let prod = if send_internal { Stmt::SendInternal("x".into()) } else { Stmt::Raise("x".into()) };
                let host = if producer_in_region { r2 } else { c };
                d.nodes[host].onentry.push(vec![prod]);
                let mut push = |d: &mut Doc, src: Nx, ev: &str, t: Vec<Nx>, tag: &str| {
                    let content = vec![Stmt::Mark(vec!["t".into(), d.nodes[src].name.clone(), tag.into()])];
                    d.nodes[src].trans.push(Trans { events: vec![ev.into()], cond: None, targets: t, internal: false, content });
                };
                push(&mut d, s0, "e1", vec![f1, c], "multi");
                push(&mut d, s0, "e2", vec![p], "default");
                push(&mut d, a, "e1", vec![f1], "af");
                push(&mut d, b, "e1", vec![c], "bc");
                push(&mut d, p, "done.state.r1", vec![s9], "D");
                push(&mut d, p, "x", vec![s0], "X");
                push(&mut d, s9, "e2", vec![s0], "back");
                push(&mut d, s9, "x", vec![], "late-x");
                push(&mut d, s0, "x", vec![], "late-x0");
                push(&mut d, s0, "done.state.r1", vec![], "late-d0");
                sink(Item {
                    label: format!("done-vs-raise #{} final_first={} in_region={} send={}", idx, final_region_first, producer_in_region, send_internal),
                    doc: d,
                    opts: opts.clone(),
                    sig_hint: String::new(),
                });
            }
        }
    }
}

/// C06: documents with two history pseudo-states (all parent / type combinations), singles exploration.
fn family_two_histories(n: usize, opts: &Opts, sink: Sink) {
    for f in shapes_upto(n) {
        let inner = inner_ordinals(&f);
        for (i, a) in inner.iter().enumerate() {
            for b in inner.iter().skip(i) {
                for (da, db) in [(false, true), (true, false), (false, false), (true, true)] {
                    if a == b && da == db {
                        continue;
                    }
                    if a == b && da {
                        continue; // (shallow, deep) in the same parent listed once
                    }
                    let d0 = base_doc(&f, &[(*a, da), (*b, db)]);
                    let hs: Vec<Nx> = (0..d0.nodes.len()).filter(|x| d0.is_history(*x)).collect();
                    if hs.len() != 2 {
                        continue;
                    }
                    // default targets: first legal one for each (all combinations of first/last)
                    let d1 = history_defaults(&d0, hs[0]);
                    let d2 = history_defaults(&d0, hs[1]);
                    for t1 in [d1.first(), d1.last()] {
                        for t2 in [d2.first(), d2.last()] {
                            let (t1, t2) = match (t1, t2) {
                                (Some(x), Some(y)) => (*x, *y),
                                _ => continue,
                            };
                            let mut d = d0.clone();
                            set_history_default(&mut d, hs[0], t1);
                            set_history_default(&mut d, hs[1], t2);
                            let cands: Vec<Cand> = candidates(&d, false, false, true)
                                .into_iter()
                                .filter(|c| !is_hist_inside(&d0, c))
                                .collect();
                            for (i, c) in cands.iter().enumerate() {
                                add_trans(&mut d, c, Some(&format!("t{}", i)), None, "");
                            }
                            sink(Item {
                                label: format!("twohist {:?} {}{} {}{} >{} >{}", shape_str(&f), a, da, b, db, t1, t2),
                                doc: d,
                                opts: opts.clone(),
                                sig_hint: String::new(),
                            });
                        }
                    }
                }
            }
        }
    }
}

/// C07: shapes that contain final states; transitions triggered by done.state events make their
/// processing observable; donedata with params / content on every nested final.
fn family_finals(n: usize, opts: &Opts, sink: Sink) {
    for f in shapes_upto(n) {
        if !has_kind(&f, &K::F) {
            continue;
        }
        for variant in 0..3 {
            let mut d = base_doc(&f, &[]);
            d.nodes[0].data.push(("v".into(), Some(Expr::Int(7))));
            let cands: Vec<Cand> = candidates(&d, true, false, true);
            for (i, c) in cands.iter().enumerate() {
                add_trans(&mut d, c, Some(&format!("t{}", i)), None, "");
            }
            // observers for done events on the root's first child chain
            for s in 1..d.nodes.len() {
                if matches!(d.nodes[s].kind, Kind::State | Kind::Parallel) {
                    let nm = d.nodes[s].name.clone();
                    d.nodes[s].trans.push(Trans {
                        events: vec!["done.state".into()],
                        cond: None,
                        targets: vec![],
                        internal: false,
                        content: vec![Stmt::MarkE(vec!["done-seen-in".into(), nm], Expr::EvName)],
                    });
                }
                if d.nodes[s].kind == Kind::Final && d.nodes[s].parent != Some(0) {
                    match variant {
                        1 => {
                            d.nodes[s].donedata = Some(DoneData {
                                params: vec![("p".into(), Expr::Var("v".into())), ("q".into(), Expr::Int(2))],
                                content: None,
                            })
                        }
                        2 => {
                            d.nodes[s].donedata = Some(DoneData {
                                params: vec![],
                                content: Some(Expr::VarPlus("v".into(), 1)),
                            })
                        }
                        _ => {}
                    }
                }
            }
            sink(Item {
                label: format!("finals {:?} v{}", shape_str(&f), variant),
                doc: d,
                opts: opts.clone(),
                sig_hint: String::new(),
            });
        }
    }
}

// ------------------------------------------------------------------------------------------ C08

fn mk(tag: &str) -> Stmt {
    Stmt::Mark(vec![tag.to_string()])
}

fn c08_conds() -> Vec<(&'static str, Expr)> {
    vec![("T", Expr::VarLt("v".into(), 100)), ("F", Expr::VarEq("v".into(), -1)), ("E", Expr::Bad)]
}

/// (label, statement, is_error_site)
fn c08_leaves() -> Vec<(&'static str, Stmt)> {
    vec![
        ("mark", mk("L")),
        ("raise", Stmt::Raise("r1".into())),
        ("assign-ok", Stmt::Assign("v".into(), Expr::Int(7))),
        ("assign-undeclared", Stmt::Assign("nodecl".into(), Expr::Int(1))),
        ("assign-readonly", Stmt::Assign("_sessionid".into(), Expr::Int(1))),
        ("assign-bad-expr", Stmt::Assign("v".into(), Expr::Bad)),
        ("assign-bad-syntax", Stmt::Assign("v".into(), Expr::BadSyntax)),
        ("log-ok", Stmt::Log(Expr::Var("v".into()))),
        ("log-bad", Stmt::Log(Expr::Bad)),
        ("script-bad", Stmt::Script(Expr::Bad)),
        ("mark-bad-arg", Stmt::MarkE(vec!["arg".into()], Expr::Bad)),
        ("send-internal", Stmt::SendInternal("r2".into())),
        // syntactically malformed sources (they fail in the parser, not in the evaluator)
        ("log-bad-syntax", Stmt::Log(Expr::BadSyntax)),
        ("script-bad-syntax", Stmt::Script(Expr::BadSyntax)),
        ("send-eventexpr-ok", Stmt::SendInternalExpr(Expr::Str("r4".into()))),
        ("send-eventexpr-bad", Stmt::SendInternalExpr(Expr::Bad)),
        ("send-eventexpr-bad-syntax", Stmt::SendInternalExpr(Expr::BadSyntax)),
    ]
}

fn c08_subs(rich: bool) -> Vec<(&'static str, Block)> {
    let mut v: Vec<(&'static str, Block)> = vec![
        ("[]", vec![]),
        ("[m]", vec![mk("in")]),
        ("[err,m]", vec![Stmt::Assign("nodecl".into(), Expr::Int(1)), mk("after-err")]),
    ];
    if rich {
        v.push(("[m,raise]", vec![mk("in2"), Stmt::Raise("r3".into())]));
        v.push(("[logbad,m]", vec![Stmt::Log(Expr::Bad), mk("after-logbad")]));
    }
    v
}

/// (label with the kind of construct that contains the first possible error site, item)
fn c08_items(thorough: bool) -> Vec<(String, Stmt)> {
    let mut out: Vec<(String, Stmt)> = vec![];
    for (l, s) in c08_leaves() {
        out.push((format!("leaf:{}", l), s));
    }
    let subs = c08_subs(thorough);
    let conds = c08_conds();
    for (cn, c) in &conds {
        for (s1n, s1) in &subs {
            out.push((format!("if:{}:{}", cn, s1n), Stmt::If { branches: vec![(c.clone(), s1.clone())], els: None }));
            for (s2n, s2) in &subs {
                out.push((
                    format!("if-else:{}:{}:{}", cn, s1n, s2n),
                    Stmt::If { branches: vec![(c.clone(), s1.clone())], els: Some(s2.clone()) },
                ));
                for (c2n, c2) in &conds {
                    out.push((
                        format!("if-elseif:{}:{}:{}:{}", cn, s1n, c2n, s2n),
                        Stmt::If { branches: vec![(c.clone(), s1.clone()), (c2.clone(), s2.clone())], els: None },
                    ));
                    if thorough || (s1n == &"[m]") {
                        for (s3n, s3) in &subs {
                            out.push((
                                format!("if-elseif-else:{}:{}:{}:{}:{}", cn, s1n, c2n, s2n, s3n),
                                Stmt::If {
                                    branches: vec![(c.clone(), s1.clone()), (c2.clone(), s2.clone())],
                                    els: Some(s3.clone()),
                                },
                            ));
                        }
                    }
                }
            }
        }
    }
    let arrays: Vec<(&str, Expr)> = vec![
        ("empty", Expr::Arr(vec![])),
        ("one", Expr::Arr(vec![5])),
        ("two", Expr::Arr(vec![5, 6])),
        ("bad", Expr::Bad),
        ("notarray", Expr::Int(3)),
    ];
    for (an, a) in &arrays {
        for (sn, sb) in &subs {
            for idx in [None, Some("ix".to_string())] {
                let mut body = sb.clone();
                body.push(Stmt::MarkE(vec!["item".into()], Expr::Var("it".into())));
                if idx.is_some() {
                    body.push(Stmt::MarkE(vec!["index".into()], Expr::Var("ix".into())));
                }
                out.push((
                    format!("foreach:{}:{}:{}", an, sn, idx.is_some()),
                    Stmt::Foreach { array: a.clone(), item: "it".into(), index: idx.clone(), body },
                ));
            }
        }
    }
    if thorough {
        // nesting depth 2: if inside foreach inside if, with an error at each level
        for (cn, c) in &conds {
            for (an, a) in &arrays {
                for (ln, l) in c08_leaves() {
                    out.push((
                        format!("nest2:{}:{}:{}", cn, an, ln),
                        Stmt::If {
                            branches: vec![(
                                c.clone(),
                                vec![
                                    mk("n0"),
                                    Stmt::Foreach {
                                        array: a.clone(),
                                        item: "it".into(),
                                        index: None,
                                        body: vec![
                                            Stmt::If { branches: vec![(Expr::VarLt("it".into(), 6), vec![l.clone(), mk("n2")])], els: Some(vec![mk("n2e")]) },
                                            mk("n1"),
                                        ],
                                    },
                                    mk("n0b"),
                                ],
                            )],
                            els: Some(vec![mk("n-else")]),
                        },
                    ));
                }
            }
        }
    }
    out
}

/// hosts: 0 onentry(s0) 1 onexit(s0) 2 transition 3 <initial> of p 4 history default 5 onentry(p)
fn c08_doc(block: Block, host: usize) -> Doc {
    let mut d = Doc::new();
    d.nodes[0].data.push(("v".into(), Some(Expr::Int(0))));
    let s0 = d.add(0, "s0", Kind::State);
    let p = d.add(0, "p", Kind::State);
    let h = d.add(p, "h", Kind::HistShallow);
    let p1 = d.add(p, "p1", Kind::State);
    let p2 = d.add(p, "p2", Kind::State);
    // every host is followed by a second block / later content that must still run
    if host == 0 {
        d.nodes[s0].onentry.push(block.clone());
    }
    d.nodes[s0].onentry.push(vec![mk("s0-entry-2nd-block")]);
    if host == 1 {
        d.nodes[s0].onexit.push(block.clone());
    }
    d.nodes[s0].onexit.push(vec![mk("s0-exit-2nd-block")]);
    d.nodes[s0].trans.push(Trans {
        events: vec!["go".into()],
        cond: None,
        targets: vec![p],
        internal: false,
        content: if host == 2 { block.clone() } else { vec![mk("t-go")] },
    });
    d.nodes[s0].trans.push(Trans {
        events: vec!["hist".into()],
        cond: None,
        targets: vec![h],
        internal: false,
        content: vec![mk("t-hist")],
    });
    d.nodes[p].initial_elem = Some((vec![p1], if host == 3 { block.clone() } else { vec![mk("p-initial")] }));
    if host == 5 {
        d.nodes[p].onentry.push(block.clone());
    }
    d.nodes[p].onentry.push(vec![mk("p-entry-2nd-block")]);
    d.nodes[h].trans.push(Trans {
        events: vec![],
        cond: None,
        targets: vec![p2],
        internal: false,
        content: if host == 4 { block.clone() } else { vec![mk("h-default")] },
    });
    d.nodes[p1].onentry.push(vec![mk("p1-entry")]);
    d.nodes[p2].onentry.push(vec![mk("p2-entry")]);
    for s in [p1, p2] {
        d.nodes[s].trans.push(Trans {
            events: vec!["back".into()],
            cond: None,
            targets: vec![s0],
            internal: false,
            content: vec![],
        });
    }
    // internal events are observable: error.execution and the raised events
    d.nodes[0].children.len();
    d
}

fn family_content(thorough: bool, opts: &Opts, sink: Sink) {
    let items = c08_items(thorough);
    let hosts: Vec<usize> = vec![0, 1, 2, 3, 4, 5];
    for (label, it) in &items {
        for h in &hosts {
            // construct kind = text before the first ':' ; error-site hint for signatures
            let kind = label.split(':').take(2).collect::<Vec<_>>().join(":");
            sink(Item {
                label: format!("content single {} host{}", label, h),
                doc: c08_doc(vec![it.clone()], *h),
                opts: opts.clone(),
                sig_hint: format!(":{}", kind),
            });
            sink(Item {
                label: format!("content framed {} host{}", label, h),
                doc: c08_doc(vec![mk("pre"), it.clone(), mk("post")], *h),
                opts: opts.clone(),
                sig_hint: format!(":{}", kind),
            });
        }
    }
    // pairs of leaves
    let leaves = c08_leaves();
    for (an, a) in &leaves {
        for (bn, b) in &leaves {
            for h in [0usize, 2] {
                sink(Item {
                    label: format!("content pair {} {} host{}", an, bn, h),
                    doc: c08_doc(vec![a.clone(), b.clone(), mk("post")], h),
                    opts: opts.clone(),
                    sig_hint: format!(":leaf:{}", an),
                });
            }
        }
    }
}

// ------------------------------------------------------------------------------------------ C09

/// marks that evaluate In(x) for every state x at this content position
fn in_marks(d: &Doc, tag: &str) -> Block {
    let mut b = vec![];
    for n in 1..d.nodes.len() {
        if !d.is_history(n) {
            let nm = d.nodes[n].name.clone();
            b.push(Stmt::MarkE(vec!["in".into(), tag.to_string(), nm.clone()], Expr::In(nm)));
        }
    }
    b
}

fn family_in_marks(n: usize, opts: &Opts, sink: Sink) {
    for f in shapes_upto(n) {
        let mut d = build(&f, &[]);
        for s in 1..d.nodes.len() {
            let nm = d.nodes[s].name.clone();
            let en = in_marks(&d, &format!("en:{}", nm));
            let ex = in_marks(&d, &format!("ex:{}", nm));
            d.nodes[s].onentry.push(en);
            d.nodes[s].onexit.push(ex);
        }
        let cands = candidates(&d, true, false, false);
        for (i, c) in cands.iter().enumerate() {
            add_trans(&mut d, c, Some(&format!("t{}", i)), None, "");
            let last = d.nodes[c.src].trans.len() - 1;
            let tm = in_marks(&d, &format!("t:{}", i));
            d.nodes[c.src].trans[last].content = tm;
        }
        sink(Item {
            label: format!("in-marks {}", shape_str(&f)),
            doc: d,
            opts: opts.clone(),
            sig_hint: String::new(),
        });
    }
}

/// guards In(x) / !In(x) on every candidate transition, for a data model that supports content
/// (marks present) or not (null data model: the selected transitions are the observation)
fn family_in_guards(n: usize, datamodel: &str, opts: &Opts, sink: Sink) {
    for f in shapes_upto(n) {
        if count_states(&f) < 2 {
            continue;
        }
        let d0 = {
            let mut d = build(&f, &[]);
            if datamodel != "null" {
                std_marks(&mut d);
            }
            d.datamodel = datamodel.to_string();
            d
        };
        let states: Vec<Nx> = (1..d0.nodes.len()).collect();
        for guard_state in &states {
            for neg in [false, true] {
                let mut d = d0.clone();
                let cands = candidates(&d, false, false, false);
                let gname = d.nodes[*guard_state].name.clone();
                for (i, c) in cands.iter().enumerate() {
                    let cond = if neg && datamodel != "null" { Expr::NotIn(gname.clone()) } else { Expr::In(gname.clone()) };
                    // every second candidate guarded, the others unguarded movers
                    let guard = if i % 2 == 0 { Some(cond) } else { None };
                    add_trans(&mut d, c, Some(&format!("t{}", i)), guard, "");
                    if datamodel == "null" {
                        let last = d.nodes[c.src].trans.len() - 1;
                        d.nodes[c.src].trans[last].content = vec![];
                    }
                }
                if neg && datamodel == "null" {
                    continue;
                }
                sink(Item {
                    label: format!("in-guards {} {} In({}) neg={}", datamodel, shape_str(&f), gname, neg),
                    doc: d,
                    opts: opts.clone(),
                    sig_hint: String::new(),
                });
            }
        }
    }
}

/// data binding: data at root / state / nested state, early and late binding, re-entry, modification
fn family_binding(opts: &Opts, sink: Sink) {
    for late in [false, true] {
        for variant in 0..4 {
            let mut d = Doc::new();
            d.late_binding = late;
            d.nodes[0].data.push(("r".into(), Some(Expr::Int(1))));
            let a = d.add(0, "a", Kind::State);
            let b = d.add(0, "b", Kind::State);
            let b1 = d.add(b, "b1", Kind::State);
            let b2 = d.add(b, "b2", Kind::State);
            let c = d.add(0, "c", Kind::Parallel);
            let c1 = d.add(c, "c1", Kind::State);
            let c2 = d.add(c, "c2", Kind::State);
            d.nodes[a].data.push(("da".into(), Some(Expr::Int(2))));
            d.nodes[b].data.push(("db".into(), Some(Expr::Int(3))));
            d.nodes[b1].data.push(("db1".into(), Some(Expr::Str("x".into()))));
            d.nodes[b2].data.push(("db2".into(), None));
            d.nodes[c1].data.push(("dc1".into(), Some(Expr::Int(5))));
            d.nodes[c2].data.push(("dc2".into(), Some(Expr::Int(6))));
            let vars = ["r", "da", "db", "db1", "db2", "dc1", "dc2"];
            let reads = |tag: &str| -> Block {
                vars.iter()
                    .map(|v| Stmt::MarkE(vec!["val".into(), tag.to_string(), v.to_string()], Expr::Var(v.to_string())))
                    .collect()
            };
            // the global script runs before any state is entered; whether top-level data already have
            // their values then under late binding is not stated by the property: early binding only
            if variant % 2 == 1 && !late {
                // (rfsm-expression syntax; the ecmascript slice replaces it)
                d.script = Some(Expr::Raw("r ?= 1".into()));
            }
            for s in [a, b, b1, b2, c, c1, c2] {
                let nm = d.nodes[s].name.clone();
                d.nodes[s].onentry.push(reads(&format!("en:{}", nm)));
            }
            let mut t = |d: &mut Doc, src: Nx, ev: &str, tgt: Nx, content: Block| {
                d.nodes[src].trans.push(Trans { events: vec![ev.into()], cond: None, targets: vec![tgt], internal: false, content });
            };
            t(&mut d, a, "ab", b, vec![]);
            t(&mut d, a, "ab2", b2, vec![]);
            t(&mut d, a, "ac", c, vec![]);
            t(&mut d, b, "ba", a, if variant >= 2 { vec![Stmt::Assign("db".into(), Expr::Int(30)), Stmt::Assign("da".into(), Expr::Int(20))] } else { vec![] });
            t(&mut d, b1, "b12", b2, vec![Stmt::Assign("db1".into(), Expr::Str("y".into()))]);
            t(&mut d, b2, "b21", b1, vec![]);
            t(&mut d, c, "ca", a, vec![Stmt::Assign("dc1".into(), Expr::Int(50))]);
            t(&mut d, c1, "cb", b, vec![]);
            sink(Item {
                label: format!("binding late={} variant={}", late, variant),
                doc: d,
                opts: Opts { max_states: 300, ..opts.clone() },
                sig_hint: String::new(),
            });
        }
    }
}

fn scenario_item(name: &str, label: &str) -> Item {
    Item {
        label: format!("scenario {} {}", name, label),
        doc: Doc::new(),
        opts: Opts { scenario: Some(name.to_string()), ..Opts::default() },
        sig_hint: String::new(),
    }
}

fn families(ctx: &Ctx, sink: Sink) {
    let thorough = ctx.thorough();
    match ctx.prop.as_str() {
        "C01" => {
            let o = Opts {
                use_reference: false,
                check_legality: true,
                ..Opts::default()
            };
            family_singles(4, true, true, thorough, &o, sink);
            family_pairs(if thorough { 4 } else { 3 }, thorough, &o, sink);
            // Illegal configurations after a history target from inside the history's parent are a known finding (the
            // published algorithm produces them). That classification must not hide anything else: on this family the
            // real trace is also compared with the reference interpreter, which follows the published algorithm.
            let o_ref = Opts {
                use_reference: true,
                check_legality: true,
                ..Opts::default()
            };
            family_hist_inside(3, &o_ref, sink);
            family_corpus(thorough, 0, &o, sink);
        }
        "C02" => {
            let o = Opts {
                twice: thorough,
                ..Opts::default()
            };
            family_singles(4, true, true, thorough, &o, sink);
            // the large pairs family is executed once per run (its states are still re-reached over different paths,
            // which must reproduce the traces); every run of the other families is executed twice in the thorough tier
            let o_pairs = Opts { twice: false, ..o.clone() };
            family_pairs(if thorough { 4 } else { 3 }, thorough, &o_pairs, sink);
            family_hist_inside(3, &o, sink);
            family_corpus(thorough, 0, &o, sink);
        }
        "C03" => {
            let o = Opts {
                burst: true,
                ..Opts::default()
            };
            family_queues(thorough, &o, sink);
            family_stranded(&o, sink);
            family_done_vs_raise(&o, sink);
        }
        "C06" => {
            let o = Opts::default();
            // shapes with one history state (every parent, type, default target), all transitions
            for f in shapes_upto(if thorough { 5 } else { 4 }) {
                if inner_ordinals(&f).is_empty() {
                    continue;
                }
                if count_states(&f) == 5 && depth(&f) < 3 {
                    continue;
                }
                for (hl, d0) in hist_variants(&f, true).into_iter().skip(1) {
                    let mut d = d0.clone();
                    let cands: Vec<Cand> = candidates(&d, count_states(&f) < 5, false, true)
                        .into_iter()
                        .filter(|c| !is_hist_inside(&d0, c))
                        .collect();
                    for (i, c) in cands.iter().enumerate() {
                        add_trans(&mut d, c, Some(&format!("t{}", i)), None, "");
                    }
                    // the parent's own initial specification targets its history child (attribute form and
                    // <initial> element with content): on the first entry the history default content runs after
                    // the initial-transition content; later entries restore what was recorded
                    if count_states(&f) <= if thorough { 4 } else { 3 } {
                        let h = d.nodes.iter().position(|n| n.kind.is_history()).unwrap();
                        let hp = d.nodes[h].parent.unwrap();
                        let mut da = d.clone();
                        da.nodes[hp].initial_attr = Some(vec![h]);
                        sink(Item {
                            label: format!("history {:?} {} initial-attr->history", shape_str(&f), hl),
                            doc: da,
                            opts: o.clone(),
                            sig_hint: String::new(),
                        });
                        let mut de = d.clone();
                        let pn = de.nodes[hp].name.clone();
                        de.nodes[hp].initial_elem = Some((vec![h], vec![Stmt::Mark(vec!["init".into(), pn])]));
                        sink(Item {
                            label: format!("history {:?} {} initial-elem->history", shape_str(&f), hl),
                            doc: de,
                            opts: o.clone(),
                            sig_hint: String::new(),
                        });
                    }
                    sink(Item {
                        label: format!("history {:?} {}", shape_str(&f), hl),
                        doc: d,
                        opts: o.clone(),
                        sig_hint: String::new(),
                    });
                }
            }
            family_two_histories(if thorough { 4 } else { 3 }, &o, sink);
            family_corpus(thorough, 1, &o, sink);
            let oi = Opts {
                check_legality: true,
                ..Opts::default()
            };
            family_hist_inside(3, &oi, sink);
        }
        "C07" => {
            let o = Opts {
                cancel_everywhere: true,
                burst: true,
                ..Opts::default()
            };
            family_finals(if thorough { 5 } else { 4 }, &o, sink);
            // shutdown by cancel from every reachable configuration of the larger parallel shapes
            // (exit order and onexit content of exitInterpreter; no finals needed)
            family_corpus(thorough, 2, &o, sink);
        }
        "C19" => {
            let o = Opts::default();
            family_descriptors(thorough, &o, sink);
        }
        "C12" if ctx.has("--ecma") => {
            // ecmascript slice (full-feature build): the same oddities in a document with datamodel="ecmascript" plus
            // script-engine specific ones; oracle: no crash, no wedge, cancellable (the error classes are judged in
            // the rfsm-expression slice only)
            let n = oddities().len() + ecma_oddities().len();
            sink(scenario_item("robust@ecma:", "base"));
            let mut names: Vec<&'static str> = oddities().iter().map(|o| o.0).collect();
            names.extend(ecma_oddities().iter().map(|o| o.0));
            for i in 0..n {
                sink(scenario_item(&format!("robust@ecma:{}", i), names[i]));
            }
        }
        "C12" => {
            let n = oddities().len();
            sink(scenario_item("robust:", "base"));
            for i in 0..n {
                sink(scenario_item(&format!("robust:{}", i), oddities()[i].0));
            }
            if thorough {
                for i in 0..n {
                    for j in 0..n {
                        if i != j {
                            sink(scenario_item(&format!("robust:{},{}", i, j), ""));
                        }
                    }
                }
            }
        }
        "C09" if ctx.has("--ecma") => {
            // ecmascript slice (full-feature build only): the same In() and binding families with
            // datamodel="ecmascript"
            let o = Opts::default();
            let n = if thorough { 4 } else { 3 };
            let mut ecma = |mut it: Item| {
                it.doc.datamodel = "ecmascript".into();
                if it.doc.script.is_some() {
                    it.doc.script = Some(Expr::Raw("var zz = r".into()));
                }
                it.label = format!("ecmascript {}", it.label);
                sink(it)
            };
            family_in_marks(n, &o, &mut ecma);
            family_in_guards(n, "ecmascript", &o, &mut ecma);
            family_binding(&o, &mut ecma);
            sink(scenario_item("event-fields@ecmascript", ""));
            sink(scenario_item("readonly@ecmascript", ""));
            sink(scenario_item("readonly@ecmascript-nonstrict", ""));
            sink(scenario_item("sysvar-data@ecmascript", ""));
        }
        "C09" => {
            let o = Opts::default();
            family_in_marks(if thorough { 4 } else { 3 }, &o, sink);
            family_in_guards(if thorough { 4 } else { 3 }, "rfsm-expression", &o, sink);
            family_in_guards(if thorough { 4 } else { 3 }, "null", &o, sink);
            family_binding(&o, sink);
            sink(scenario_item("event-fields", ""));
            sink(scenario_item("readonly", ""));
            sink(scenario_item("sysvar-data", ""));
            sink(scenario_item("event-copy-alias", ""));
            sink(scenario_item("in-after-invoke", ""));
        }
        "C08" if ctx.has("--ecma") => {
            let o = Opts {
                extra_events: vec![],
                max_states: 40,
                ..Opts::default()
            };
            let mut ecma = |mut it: Item| {
                it.doc.datamodel = "ecmascript".into();
                it.label = format!("ecmascript {}", it.label);
                sink(it)
            };
            // quick tier: the listed sub-family of every 6th document (the script engine makes a
            // session start ~10x as expensive); thorough: all of them
            let mut k = 0usize;
            let mut sub = |it: Item| {
                k += 1;
                if thorough || k % 6 == 1 {
                    ecma(it)
                }
            };
            family_content(thorough, &o, &mut sub);
            sink(scenario_item("foreach-sources@ecmascript", ""));
            // non-strict sub-family: a failing leaf in one block, and in every LATER block a script that is only
            // legal in non-strict mode (creates an implicit global): an error must not change how later blocks run
            for (ln, l) in c08_leaves() {
                for h in 0..6usize {
                    let mut d = c08_doc(vec![mk("pre"), l.clone(), mk("post")], h);
                    d.datamodel = "ecmascript".into();
                    let patch = |blocks: &mut Vec<Block>| {
                        for b in blocks.iter_mut() {
                            let hit = matches!(b.first(), Some(Stmt::Mark(a)) if a.first().map(|x| x.ends_with("2nd-block")).unwrap_or(false));
                            if hit {
                                b.insert(0, Stmt::ScriptText("zz9 = 41".into()));
                            }
                        }
                    };
                    for n in 0..d.nodes.len() {
                        patch(&mut d.nodes[n].onentry);
                        patch(&mut d.nodes[n].onexit);
                    }
                    sink(Item {
                        label: format!("ecmascript nonstrict later-block {} host{}", ln, h),
                        doc: d,
                        opts: o.clone(),
                        sig_hint: format!(":leaf:{}", ln),
                    });
                }
            }
        }
        "C08" => {
            let o = Opts {
                extra_events: vec![],
                max_states: 40,
                ..Opts::default()
            };
            family_content(thorough, &o, sink);
            sink(scenario_item("foreach-sources", ""));
            sink(scenario_item("null-content", ""));
        }
        _ => panic!("e1: unknown property {}", ctx.prop),
    }
}

// ------------------------------------------------------------------------------------------ scenarios

use rufsm::datamodel::Data;
use rufsm::fsm::{Event, EventType, ParamPair};
use vh::rec::{EvInfo, Rec};
use vh::runner::{take_panics, Run, Wait};

const XMLNS: &str = "xmlns=\"http://www.w3.org/2005/07/scxml\" version=\"1.0\"";

fn ev_with(name: &str, params: Option<Vec<(&str, Data)>>, content: Option<Data>, sendid: Option<&str>, origin: Option<&str>, otype: Option<&str>) -> Event {
    Event {
        name: name.to_string(),
        etype: EventType::external,
        sendid: sendid.map(|x| x.to_string()),
        origin: origin.map(|x| x.to_string()),
        origin_type: otype.map(|x| x.to_string()),
        invoke_id: None,
        param_values: params.map(|v| v.into_iter().map(|(k, d)| ParamPair::new(k, &d)).collect()),
        content,
    }
}

/// an absent optional field reads as null in rfsm-expression and as undefined (rendered "") in ecmascript
fn opt_show(o: &Option<String>, dm: &str) -> String {
    o.clone().unwrap_or_else(|| if dm == "ecmascript" { String::new() } else { "null".to_string() })
}

/// C09: _event exposes the fields of the event being processed, unchanged (reference-free oracle:
/// the values read through _event are compared with the event object the interpreter received).
/// C08: <foreach> over collections that live in different places (a declared variable, a literal, a member of
/// a variable, the data of the current event, an element of a nested array), with and without index, with a body
/// that assigns to a declared variable: every item is visited once, in order, item and index bound.
fn scenario_foreach_sources(ctx: &Ctx, out: &mut WorkerOut, index: usize, dm: &str) {
    let sources: Vec<(&str, &str)> = vec![
        ("var", "arr"),
        ("literal", "[7, 8, 9]"),
        ("member", "box.xs"),
        ("event-data", "_event.data.xs"),
        ("nested", "grid[1]"),
    ];
    let mut trans = String::new();
    for (n, src) in &sources {
        trans.push_str(&format!(
            "<transition event=\"go.{n}\"><foreach array=\"{src}\" item=\"it\" index=\"ix\"><log expr=\"mark('it','{n}',it,ix)\"/><assign location=\"sum\" expr=\"sum + it\"/></foreach><log expr=\"mark('sum','{n}',sum)\"/></transition>\n",
            n = n,
            src = src
        ));
        trans.push_str(&format!(
            "<transition event=\"gn.{n}\"><foreach array=\"{src}\" item=\"jt\"><log expr=\"mark('jt','{n}',jt)\"/></foreach></transition>\n",
            n = n,
            src = src
        ));
    }
    let (arr, boxv, grid) = if dm == "ecmascript" {
        ("[7, 8, 9]", "({xs: [7, 8, 9]})", "[[1], [7, 8, 9]]")
    } else {
        ("[7, 8, 9]", "{'xs': [7, 8, 9]}", "[[1], [7, 8, 9]]")
    };
    let xml = format!(
        r##"<scxml {ns} datamodel="{dm}" name="fes">
<datamodel><data id="names" expr="['x', 'y z', '']"/><data id="mixed" expr="[true, 2.5, 'q', null]"/><data id="arr" expr="{arr}"/><data id="box" expr="{boxv}"/><data id="grid" expr="{grid}"/><data id="sum" expr="0"/><data id="it" expr="0"/><data id="ix" expr="0"/><data id="jt" expr="0"/></datamodel>
<state id="s">
{trans}<transition event="go.strs"><foreach array="names" item="it" index="ix"><log expr="mark('it','strs',it,ix)"/></foreach></transition>
<transition event="go.mixed"><foreach array="mixed" item="it"><log expr="mark('it','mixed',it)"/></foreach></transition>
<transition event="error"><log expr="mark('error', _event.name)"/></transition>
</state></scxml>"##,
        ns = XMLNS,
        dm = dm,
        arr = arr,
        boxv = boxv,
        grid = grid,
        trans = trans
    );
    let replay = json!({"engine":"e1","index": index, "xml": xml});
    let mut run = match Run::start(&xml, std::time::Duration::from_secs(20)) {
        Ok(r) => r,
        Err(e) => {
            out.violation(ctx, "scenario-start", "scenario-start", &format!("{:?}", e), replay);
            return;
        }
    };
    out.add("runs", 1);
    let mut idle = 1;
    let mut ok = run.wait_idle(idle) == Wait::Idle;
    let xs = Data::Array(vec![
        rufsm::datamodel::create_data_arc(Data::Integer(7)),
        rufsm::datamodel::create_data_arc(Data::Integer(8)),
        rufsm::datamodel::create_data_arc(Data::Integer(9)),
    ]);
    let mut expected: Vec<Vec<String>> = vec![];
    let mut total = 0i64;
    for prefix in ["go", "gn"] {
        for (n, _) in &sources {
            if !ok {
                break;
            }
            run.send(ev_with(&format!("{}.{}", prefix, n), Some(vec![("xs", xs.clone())]), None, None, None, None));
            idle += 1;
            ok = run.wait_idle(idle) == Wait::Idle;
            out.add("edges", 1);
            for (k, v) in [7i64, 8, 9].iter().enumerate() {
                if prefix == "go" {
                    expected.push(vec!["it".into(), n.to_string(), v.to_string(), k.to_string()]);
                    total += v;
                } else {
                    expected.push(vec!["jt".into(), n.to_string(), v.to_string()]);
                }
            }
            if prefix == "go" {
                expected.push(vec!["sum".into(), n.to_string(), total.to_string()]);
            }
        }
    }
    // items that are not numbers: strings (also an empty one and one with a blank), booleans, doubles, null
    for (ev, items) in [("go.strs", vec!["x", "y z", ""]), ("go.mixed", vec!["true", "2.5", "q", "null"])] {
        if !ok {
            break;
        }
        run.send(ev_with(ev, None, None, None, None, None));
        idle += 1;
        ok = run.wait_idle(idle) == Wait::Idle;
        out.add("edges", 1);
        for (k, v) in items.iter().enumerate() {
            if ev == "go.strs" {
                expected.push(vec!["it".into(), "strs".into(), v.to_string(), k.to_string()]);
            } else {
                expected.push(vec!["it".into(), "mixed".into(), v.to_string()]);
            }
        }
    }
    if !ok {
        out.violation(ctx, "session-stops-responding", "foreach-sources:no-idle", &format!("{:?}", take_panics()), replay.clone());
        run.finish();
        return;
    }
    let got: Vec<Vec<String>> = run
        .log
        .snapshot()
        .iter()
        .filter_map(|(_, r)| match r {
            Rec::Mark { args, .. } => Some(args.clone()),
            _ => None,
        })
        .collect();
    out.add("ref_comparisons", expected.len() as u64);
    if got != expected {
        let first = expected.iter().zip(got.iter()).position(|(a, b)| a != b).unwrap_or(expected.len().min(got.len()));
        let which = expected.get(first).map(|e| e.get(1).cloned().unwrap_or_default()).unwrap_or_default();
        out.violation(
            ctx,
            "foreach-binding",
            &format!("foreach-binding:{}:{}", dm, which),
            &format!("<foreach> over collection '{}' ({}): records differ at #{}: expected {:?}, real {:?}", which, dm, first, expected.get(first), got.get(first)),
            replay.clone(),
        );
    } else {
        out.outcomes.insert(format!("foreach-sources|{}", dm));
    }
    run.finish();
}

fn scenario_event_fields(ctx: &Ctx, out: &mut WorkerOut, index: usize, dm: &str) {
    let fields = ["name", "type", "sendid", "origin", "origintype", "invokeid"];
    let mut marks = String::new();
    for f in fields {
        marks.push_str(&format!("<log expr=\"mark('f','{}',_event.{})\"/>", f, f));
    }
    let xml = format!(
        r##"<scxml {ns} datamodel="{dm}" name="evf">
<datamodel><data id="v" expr="41"/></datamodel>
<parallel id="p">
 <state id="obs"><transition event="*">{marks}</transition></state>
 <state id="gen">
  <transition event="gen.raise"><raise event="int.raised"/></transition>
  <transition event="gen.sendint"><send event="int.sent" target="#_internal"><param name="p" expr="v + 1"/></send></transition>
  <transition event="gen.self"><send event="ext.self" id="sid7"><param name="p" expr="v + 1"/><param name="q" expr="'a b'"/></send></transition>
  <transition event="gen.content"><send event="ext.content"><content expr="'c' + v"/></send></transition>
  <transition event="gen.err"><assign location="nodecl" expr="1"/></transition>
  <transition event="h.params ext.self int.sent"><log expr="mark('d','p',_event.data.p)"/></transition>
  <transition event="h.params ext.self"><log expr="mark('d','q',_event.data.q)"/></transition>
  <transition event="h.content ext.content"><log expr="mark('d','data',_event.data)"/></transition>
 </state>
</parallel>
</scxml>"##,
        ns = XMLNS,
        dm = dm,
        marks = marks
    );
    let events: Vec<Event> = vec![
        ev_with("h.plain", None, None, None, None, None),
        ev_with("h.ids", None, None, Some("hs1"), Some("#_scxml_77"), Some("http://www.w3.org/TR/scxml/#SCXMLEventProcessor")),
        ev_with("h.params", Some(vec![("p", Data::Integer(5)), ("q", Data::String("x y".into()))]), None, Some("s2"), None, None),
        ev_with("h.content", None, Some(Data::String("body text".into())), None, None, None),
        ev_with("h.content", None, Some(Data::Integer(12)), None, None, None),
        ev_with("gen.raise", None, None, None, None, None),
        ev_with("gen.sendint", None, None, None, None, None),
        ev_with("gen.self", None, None, None, None, None),
        ev_with("gen.content", None, None, None, None, None),
        ev_with("gen.err", None, None, None, None, None),
        ev_with("\u{e9}.\u{4e2d}", None, None, Some(""), None, None),
    ];
    let mut run = match Run::start(&xml, std::time::Duration::from_secs(20)) {
        Ok(r) => r,
        Err(e) => {
            out.violation(ctx, "scenario-start", "scenario-start", &format!("{:?}", e), json!({"engine":"e1","index": index, "xml": xml}));
            return;
        }
    };
    out.add("runs", 1);
    let mut idle = 1;
    let mut ok = run.wait_idle(idle) == Wait::Idle;
    // self-sent external events add idle points: wait until the log is quiet by counting expected dequeues
    for e in &events {
        if !ok {
            break;
        }
        run.send(e.clone());
        idle += 1;
        if e.name == "gen.self" || e.name == "gen.content" {
            idle += 1;
        }
        ok = run.wait_idle(idle) == Wait::Idle;
    }
    let recs = run.log.snapshot();
    if !ok {
        out.violation(ctx, "session-stops-responding", "event-fields:no-idle", &format!("{:?} {:?}", take_panics(), recs.len()), json!({"engine":"e1","index": index, "xml": xml}));
        run.finish();
        return;
    }
    // walk the records: after each received event, the marks must show its fields
    let mut cur: Option<EvInfo> = None;
    let mut seen_events = 0;
    let mut checked = 0u64;
    for (_, r) in &recs {
        match r {
            Rec::XRecv(e) | Rec::IRecv(e) => {
                cur = Some(e.clone());
                seen_events += 1;
            }
            Rec::Mark { args, .. } => {
                let e = match &cur {
                    Some(e) => e,
                    None => continue,
                };
                if args.len() == 3 && args[0] == "f" {
                    let exp = match args[1].as_str() {
                        "name" => e.name.clone(),
                        "type" => e.etype.clone(),
                        "sendid" => opt_show(&e.sendid, dm),
                        "origin" => opt_show(&e.origin, dm),
                        "origintype" => opt_show(&e.origintype, dm),
                        _ => opt_show(&e.invokeid, dm),
                    };
                    checked += 1;
                    if exp != args[2] {
                        out.violation(
                            ctx,
                            "event-field-differs",
                            &format!("event-fields:{}", args[1]),
                            &format!("while processing event {:?}: _event.{} reads {:?}, the event carries {:?}", e.name, args[1], args[2], exp),
                            json!({"engine":"e1","index": index, "xml": xml}),
                        );
                    }
                } else if args.len() == 3 && args[0] == "d" {
                    let exp = if args[1] == "data" {
                        e.content.clone().unwrap_or_else(|| "null".into())
                    } else {
                        e.params
                            .as_ref()
                            .and_then(|p| p.iter().find(|(k, _)| *k == args[1]).map(|(_, v)| v.clone()))
                            .unwrap_or_else(|| "<absent>".into())
                    };
                    checked += 1;
                    if exp != args[2] {
                        out.violation(
                            ctx,
                            "event-data-differs",
                            &format!("event-fields:data:{}", args[1]),
                            &format!("while processing event {:?}: _event.data{} reads {:?}, the event carries {:?}", e.name, if args[1] == "data" { "".to_string() } else { format!(".{}", args[1]) }, args[2], exp),
                            json!({"engine":"e1","index": index, "xml": xml}),
                        );
                    }
                }
            }
            _ => {}
        }
    }
    // expected event population: all host events, the raised / sent ones and error.execution
    let names: Vec<String> = recs
        .iter()
        .filter_map(|(_, r)| match r {
            Rec::XRecv(e) | Rec::IRecv(e) => Some(e.name.clone()),
            _ => None,
        })
        .collect();
    for must in ["int.raised", "int.sent", "ext.self", "ext.content", "error.execution"] {
        if !names.iter().any(|n| n == must) {
            out.violation(ctx, "event-missing", &format!("event-fields:missing:{}", must), &format!("event {} was never processed: {:?}", must, names), json!({"engine":"e1","index": index, "xml": xml}));
        }
    }
    out.add("states", seen_events as u64);
    out.add("edges", seen_events as u64);
    out.add("ref_comparisons", checked);
    out.outcomes.insert(format!("event-fields|{}", seen_events));
    if run.finish() {
        out.violation(ctx, "session-thread-panicked", "event-fields:panic", &format!("{:?}", take_panics()), json!({"engine":"e1","index": index, "xml": xml}));
    }
}

/// C09: system variables can not be modified: every attempt raises error.execution and changes nothing.
/// C09: a <data> element that carries the id of a system variable (early bound at the root, late bound in a state)
/// with a literal, a bare reference to another system variable / event field, or an ordinary variable as value:
/// the system variables keep their platform values.
/// C08 with datamodel="null": executable content that needs no data model (<raise>, <send> with literal
/// attributes, <if>/<elseif>/<else> over In()) runs in document order in every host position.
/// Observation: the internal events the session dequeues (no script engine, so no mark()).
fn scenario_null_content(ctx: &Ctx, out: &mut WorkerOut, index: usize) {
    // (body, expected internal events when hosted in: onentry of a, onexit of a, transition a -> b)
    let bodies: Vec<(&str, [Vec<&str>; 3])> = vec![
        (r#"<raise event="r1"/><raise event="r2"/>"#, [vec!["r1", "r2"], vec!["r1", "r2"], vec!["r1", "r2"]]),
        (r##"<send event="r1" target="#_internal"/><raise event="r2"/>"##, [vec!["r1", "r2"], vec!["r1", "r2"], vec!["r1", "r2"]]),
        (r#"<if cond="In('a')"><raise event="r1"/><else/><raise event="r2"/></if><raise event="r9"/>"#, [vec!["r1", "r9"], vec!["r1", "r9"], vec!["r2", "r9"]]),
        (
            r#"<if cond="In('b')"><raise event="r1"/><elseif cond="In('a')"/><raise event="r2"/><raise event="r4"/><else/><raise event="r3"/></if>"#,
            [vec!["r2", "r4"], vec!["r2", "r4"], vec!["r3"]],
        ),
        (r#"<if cond="In('a')"><if cond="In('b')"><raise event="r1"/><else/><raise event="r2"/></if></if><raise event="r9"/>"#, [vec!["r2", "r9"], vec!["r2", "r9"], vec!["r9"]]),
    ];
    for (bi, (body, exp)) in bodies.iter().enumerate() {
        for host in 0..3usize {
            let (onentry, onexit, trans) = match host {
                0 => (format!("<onentry>{}</onentry>", body), String::new(), String::new()),
                1 => (String::new(), format!("<onexit>{}</onexit>", body), String::new()),
                _ => (String::new(), String::new(), body.to_string()),
            };
            let xml = format!(
                r#"<scxml xmlns="http://www.w3.org/2005/07/scxml" version="1.0" datamodel="null" initial="a"><state id="a">{onentry}{onexit}<transition event="go" target="b">{trans}</transition></state><state id="b"/></scxml>"#,
                onentry = onentry,
                onexit = onexit,
                trans = trans
            );
            let replay = json!({"engine":"e1","index": index, "xml": xml, "history": ["go"]});
            let mut run = match Run::start(&xml, std::time::Duration::from_secs(20)) {
                Ok(r) => r,
                Err(e) => {
                    out.violation(ctx, "content-not-executed", "null-content:rejected", &format!("{:?}", e), replay);
                    continue;
                }
            };
            out.add("runs", 1);
            let mut ok = run.wait_idle(1) == Wait::Idle;
            if ok {
                run.send_name("go");
                ok = run.wait_idle(2) == Wait::Idle;
                out.add("edges", 2);
            }
            if !ok {
                out.violation(ctx, "session-stops-responding", "null-content:no-idle", &format!("{:?}", take_panics()), replay);
                run.finish();
                continue;
            }
            let got: Vec<String> = run
                .log
                .snapshot()
                .iter()
                .filter_map(|(_, r)| match r {
                    Rec::IRecv(e) => Some(e.name.clone()),
                    _ => None,
                })
                .collect();
            let want: Vec<String> = exp[host].iter().map(|x| x.to_string()).collect();
            out.add("ref_comparisons", 1);
            if got != want {
                out.violation(
                    ctx,
                    "content-not-executed",
                    &format!("null-content:body{}:{}", bi, ["onentry", "onexit", "transition"][host]),
                    &format!(
                        "datamodel=\"null\": the block {} in {} must put {:?} on the internal queue, the session dequeued {:?}",
                        body,
                        ["<onentry> of the initial state", "<onexit> of the state left by event go", "the transition taken for event go"][host],
                        want,
                        got
                    ),
                    replay,
                );
            } else {
                out.outcomes.insert(format!("null-content|{}|{}", bi, host));
            }
            run.finish();
        }
    }
}

/// C09 (rfsm-expression): _event stays unchanged while the event is processed even when content copies its
/// structured data into a variable (or iterates over it) and writes through the copy.
fn scenario_event_copy_alias(ctx: &Ctx, out: &mut WorkerOut, index: usize) {
    let writes: Vec<(&str, &str)> = vec![
        ("copy-data-member", r#"<assign location="cp" expr="_event.data"/><assign location="cp.n" expr="2"/>"#),
        ("copy-event-name", r#"<assign location="cp" expr="_event"/><assign location="cp.name" expr="'forged'"/>"#),
        ("copy-nested-element", r#"<assign location="cp" expr="_event.data.xs"/><assign location="cp[0]" expr="99"/>"#),
        ("foreach-item-member", r#"<foreach array="_event.data.ms" item="it"><assign location="it.v" expr="0"/></foreach>"#),
    ];
    for (wname, w) in writes {
        let xml = format!(
            r#"<scxml {ns} datamodel="rfsm-expression" name="alias"><datamodel><data id="cp" expr="0"/><data id="it" expr="0"/></datamodel>
<state id="s"><transition event="ev" target="t">{w}</transition></state>
<state id="t"><onentry><script>mark('rb', _event.name, _event.data.n, (_event.data.xs)[0], ((_event.data.ms)[0]).v)</script></onentry></state></scxml>"#,
            ns = XMLNS,
            w = w
        );
        let replay = json!({"engine":"e1","index": index, "xml": xml, "write": wname});
        let mut run = match Run::start(&xml, std::time::Duration::from_secs(20)) {
            Ok(r) => r,
            Err(e) => {
                out.violation(ctx, "scenario-start", "scenario-start", &format!("{:?}", e), replay);
                continue;
            }
        };
        out.add("runs", 1);
        let mut ok = run.wait_idle(1) == Wait::Idle;
        if ok {
            let mut m = std::collections::HashMap::new();
            m.insert("v".to_string(), rufsm::datamodel::create_data_arc(Data::Integer(7)));
            let ms = Data::Array(vec![rufsm::datamodel::create_data_arc(Data::Map(m))]);
            let xs = Data::Array(vec![rufsm::datamodel::create_data_arc(Data::Integer(5)), rufsm::datamodel::create_data_arc(Data::Integer(6))]);
            run.send(ev_with("ev", Some(vec![("n", Data::Integer(1)), ("xs", xs), ("ms", ms)]), None, None, None, None));
            ok = run.wait_idle(2) == Wait::Idle;
            out.add("edges", 1);
        }
        if !ok {
            out.violation(ctx, "session-stops-responding", &format!("event-copy-alias:no-idle:{}", wname), &format!("{:?}", take_panics()), replay);
            run.finish();
            continue;
        }
        let rb: Vec<Vec<String>> = run
            .log
            .snapshot()
            .iter()
            .filter_map(|(_, r)| match r {
                Rec::Mark { args, .. } if args.first().map(|a| a == "rb").unwrap_or(false) => Some(args[1..].to_vec()),
                _ => None,
            })
            .collect();
        let want = vec![vec!["ev".to_string(), "1".to_string(), "5".to_string(), "7".to_string()]];
        out.add("ref_comparisons", 1);
        if rb != want {
            out.violation(
                ctx,
                "system-variable-modified",
                &format!("event-copy-alias:{}", wname),
                &format!("content {} ran while event ev (data n=1, xs=[5,6], ms=[{{v:7}}]) was processed; afterwards _event reads (name, n, xs[0], ms[0].v) = {:?}, the event that was received has {:?}", w, rb, want),
                replay,
            );
        } else {
            out.outcomes.insert(format!("event-copy-alias|{}|intact", wname));
        }
        run.finish();
    }
}

/// C09: In() in a session that has invoked a child still answers for its OWN configuration (the child has a
/// state of the same name as one of the parent's, in a different position, and states the parent does not have).
fn scenario_in_after_invoke(ctx: &Ctx, out: &mut WorkerOut, index: usize) {
    let xml = format!(
        r##"<scxml {ns} datamodel="rfsm-expression" name="par"><state id="p0"><onentry><script>mark('in', 'before', In('p0'), In('q'), In('k'))</script></onentry>
<invoke id="kid"><content><scxml xmlns="http://www.w3.org/2005/07/scxml" version="1.0" datamodel="rfsm-expression" name="kid"><state id="q"><transition event="never" target="k"/></state><state id="k"/><state id="p0"/></scxml></content></invoke>
<transition event="probe" cond="In('p0')"><script>mark('in', 'probe', In('p0'), In('q'), In('k'))</script></transition>
<transition event="probe"><script>mark('in', 'guard-false', In('p0'), In('q'), In('k'))</script></transition>
</state><state id="q"/></scxml>"##,
        ns = XMLNS
    );
    let replay = json!({"engine":"e1","index": index, "xml": xml, "history": ["probe", "probe"]});
    let mut run = match Run::start(&xml, std::time::Duration::from_secs(20)) {
        Ok(r) => r,
        Err(e) => {
            out.violation(ctx, "scenario-start", "scenario-start", &format!("{:?}", e), replay);
            return;
        }
    };
    out.add("runs", 1);
    let mut ok = run.wait_idle(1) == Wait::Idle;
    for k in 0..2 {
        if ok {
            // the child is started at the end of the first macrostep; by the second probe it has long registered
            std::thread::sleep(std::time::Duration::from_millis(if k == 0 { 0 } else { 300 }));
            run.send_name("probe");
            ok = run.wait_idle(2 + k) == Wait::Idle;
            out.add("edges", 1);
        }
    }
    if !ok {
        out.violation(ctx, "session-stops-responding", "in-after-invoke:no-idle", &format!("{:?}", take_panics()), replay);
        run.finish();
        return;
    }
    let main_session = run.session.session_id;
    let rb: Vec<Vec<String>> = run
        .log
        .snapshot()
        .iter()
        .filter_map(|(_, r)| match r {
            Rec::Mark { args, session, .. } if *session == main_session && args.first().map(|a| a == "in").unwrap_or(false) => Some(args[1..].to_vec()),
            _ => None,
        })
        .collect();
    let t = |a: &str| vec![a.to_string(), "true".to_string(), "false".to_string(), "false".to_string()];
    let want = vec![t("before"), t("probe"), t("probe")];
    out.add("ref_comparisons", 1);
    if rb != want {
        out.violation(
            ctx,
            "in-predicate",
            "in-after-invoke",
            &format!("the parent is in p0 the whole time (never in q or k); In('p0'), In('q'), In('k') evaluated in the parent before and after it invoked a child (whose states are q, k, p0): {:?}, expected {:?}", rb, want),
            replay,
        );
    } else {
        out.outcomes.insert("in-after-invoke|own-configuration".into());
    }
    run.finish();
}

fn scenario_sysvar_data(ctx: &Ctx, out: &mut WorkerOut, index: usize, dm: &str) {
    let ids = ["_sessionid", "_name", "_ioprocessors", "_event"];
    let exprs = ["'hacked'", "_sessionid", "_name", "_event.name", "_event", "v", "1"];
    for id in ids {
        for ex in exprs {
            for late in [false, true] {
                let decl = format!("<data id=\"{}\" expr=\"{}\"/>", id, ex);
                let (root_data, state_data, binding) = if late { (String::new(), format!("<datamodel>{}</datamodel>", decl), " binding=\"late\"") } else { (decl.clone(), String::new(), "") };
                let xml = format!(
                    r#"<scxml {ns} datamodel="{dm}" name="thename"{binding}>
<datamodel><data id="v" expr="5"/>{root_data}</datamodel>
<state id="s"><transition event="go" target="t"/><transition event="error"><log expr="mark('err', _event.name)"/></transition></state>
<state id="t">{state_data}
 <onentry><log expr="mark('rb','_sessionid',_sessionid)"/><log expr="mark('rb','_name',_name)"/><log expr="mark('rb','_event.name',_event.name)"/></onentry>
 <transition event="error"><log expr="mark('err', _event.name)"/></transition>
</state></scxml>"#,
                    ns = XMLNS,
                    dm = dm,
                    binding = binding,
                    root_data = root_data,
                    state_data = state_data
                );
                let replay = json!({"engine":"e1","index": index, "xml": xml});
                let mut run = match Run::start(&xml, std::time::Duration::from_secs(20)) {
                    Ok(r) => r,
                    Err(_) => {
                        // the reader may refuse such a declaration
                        out.add("documents_rejected_by_reader", 1);
                        continue;
                    }
                };
                out.add("runs", 1);
                let mut ok = run.wait_idle(1) == Wait::Idle;
                if ok {
                    run.send_name("go");
                    ok = run.wait_idle(2) == Wait::Idle;
                    out.add("edges", 1);
                }
                if !ok {
                    out.violation(ctx, "session-stops-responding", &format!("sysvar-data:no-idle:{}", id), &format!("<data id={} expr={}> late={}: {:?}", id, ex, late, take_panics()), replay);
                    run.finish();
                    continue;
                }
                let sid = run.session.session_id.to_string();
                let rb: Vec<(String, String)> = run
                    .log
                    .snapshot()
                    .iter()
                    .filter_map(|(_, r)| match r {
                        Rec::Mark { args, .. } if args.len() == 3 && args[0] == "rb" => Some((args[1].clone(), args[2].clone())),
                        _ => None,
                    })
                    .collect();
                let want = vec![("_sessionid".to_string(), sid.clone()), ("_name".to_string(), "thename".to_string()), ("_event.name".to_string(), "go".to_string())];
                out.add("ref_comparisons", 1);
                if rb != want {
                    out.violation(
                        ctx,
                        "system-variable-modified",
                        &format!("sysvar-data:{}:{}:{}", dm, id, if late { "late" } else { "early" }),
                        &format!("<data id=\"{}\" expr=\"{}\"/> ({} binding): the system variables read back {:?}, the platform values are {:?}", id, ex, if late { "late" } else { "early" }, rb, want),
                        replay,
                    );
                } else {
                    out.outcomes.insert(format!("sysvar-data|{}|intact", id));
                }
                run.finish();
            }
        }
    }
}

fn scenario_readonly(ctx: &Ctx, out: &mut WorkerOut, index: usize, dm: &str) {
    let mut attempts: Vec<(&str, String)> = vec![
        ("none", "".into()),
        ("assign:_sessionid", "<assign location=\"_sessionid\" expr=\"7\"/>".into()),
        ("assign:_name", "<assign location=\"_name\" expr=\"'x'\"/>".into()),
        ("assign:_ioprocessors", "<assign location=\"_ioprocessors\" expr=\"1\"/>".into()),
        ("assign:_event", "<assign location=\"_event\" expr=\"1\"/>".into()),
        ("assign:_event.name", "<assign location=\"_event.name\" expr=\"'hacked'\"/>".into()),
        ("assign:_event.type", "<assign location=\"_event.type\" expr=\"'hacked'\"/>".into()),
        ("assign:_event.sendid", "<assign location=\"_event.sendid\" expr=\"'hacked'\"/>".into()),
        ("assign:_event.origin", "<assign location=\"_event.origin\" expr=\"'hacked'\"/>".into()),
        ("assign:_event.origintype", "<assign location=\"_event.origintype\" expr=\"'hacked'\"/>".into()),
        ("assign:_event.invokeid", "<assign location=\"_event.invokeid\" expr=\"'hacked'\"/>".into()),
        ("assign:_event.data", "<assign location=\"_event.data\" expr=\"'hacked'\"/>".into()),
        ("script:_sessionid", "<script>_sessionid = 7</script>".into()),
        ("script:_name", "<script>_name = 'x'</script>".into()),
        ("script:_event.name", "<script>_event.name = 'hacked'</script>".into()),
        ("script:_event", "<script>_event = 1</script>".into()),
        ("script:_ioprocessors", "<script>_ioprocessors = 1</script>".into()),
        ("script-init:_sessionid", "<script>_sessionid ?= 7</script>".into()),
        ("script-init:_event.name", "<script>_event.name ?= 'hacked'</script>".into()),
    ];
    let nonstrict = dm == "ecmascript-nonstrict";
    let dm = if nonstrict { "ecmascript" } else { dm };
    if dm != "rfsm-expression" {
        // '?=' is rfsm-expression syntax
        attempts.retain(|(n, _)| !n.starts_with("script-init:"));
    }
    let iodef = if dm == "rfsm-expression" {
        "isDefined(_ioprocessors.scxml.location)"
    } else {
        "typeof _ioprocessors.scxml.location == 'string'"
    };
    let mut trans = String::new();
    for (i, (_, a)) in attempts.iter().enumerate() {
        trans.push_str(&format!("<transition event=\"a{}\" target=\"t\">{}</transition>\n", i, a));
    }
    let xml = format!(
        r#"<scxml {ns} datamodel="{dm}" name="thename">
<state id="s">{trans}</state>
<state id="t">
 <onentry>
  <log expr="mark('rb','_sessionid',_sessionid)"/>
  <log expr="mark('rb','_name',_name)"/>
  <log expr="mark('rb','_event.name',_event.name)"/>
  <log expr="mark('rb','_event.type',_event.type)"/>
  <log expr="mark('rb','_event.sendid',_event.sendid)"/>
  <log expr="mark('rb','_event.origin',_event.origin)"/>
  <log expr="mark('rb','_event.data',_event.data)"/>
  <log expr="mark('rb','_ioprocessors', {iodef})"/>
 </onentry>
 <transition event="back" target="s"/>
</state>
</scxml>"#,
        ns = XMLNS,
        dm = dm,
        iodef = iodef,
        trans = trans
    );
    let mut run = match Run::start(&xml, std::time::Duration::from_secs(20)) {
        Ok(r) => r,
        Err(e) => {
            out.violation(ctx, "scenario-start", "scenario-start", &format!("{:?}", e), json!({"engine":"e1","index": index, "xml": xml}));
            return;
        }
    };
    out.add("runs", 1);
    let mut idle = 1;
    let mut ok = run.wait_idle(idle) == Wait::Idle;
    let mut spans: Vec<(usize, usize)> = vec![];
    for i in 0..attempts.len() {
        if !ok {
            break;
        }
        let from = run.log.len();
        run.send(ev_with(&format!("a{}", i), None, Some(Data::String("payload".into())), Some("sid"), Some("orig"), None));
        idle += 1;
        ok = run.wait_idle(idle) == Wait::Idle;
        spans.push((from, run.log.len()));
        if ok {
            run.send_name("back");
            idle += 1;
            ok = run.wait_idle(idle) == Wait::Idle;
        }
    }
    let recs = run.log.snapshot();
    if !ok {
        out.violation(ctx, "session-stops-responding", "readonly:no-idle", &format!("{:?}", take_panics()), json!({"engine":"e1","index": index, "xml": xml}));
        run.finish();
        return;
    }
    let readback = |from: usize, to: usize| -> Vec<(String, String)> {
        recs[from..to]
            .iter()
            .filter_map(|(_, r)| match r {
                Rec::Mark { args, .. } if args.len() == 3 && args[0] == "rb" => Some((args[1].clone(), args[2].clone())),
                _ => None,
            })
            .collect()
    };
    let errors = |from: usize, to: usize| -> usize {
        recs[from..to]
            .iter()
            .filter(|(_, r)| matches!(r, Rec::IRecv(e) if e.name == "error.execution"))
            .count()
    };
    let base = readback(spans[0].0, spans[0].1);
    let mut checked = 0u64;
    if base.len() != 8 || errors(spans[0].0, spans[0].1) != 0 {
        out.violation(ctx, "scenario-baseline", "readonly:baseline", &format!("baseline read-back incomplete: {:?}", base), json!({"engine":"e1","index": index, "xml": xml}));
    }
    for (i, (name, _)) in attempts.iter().enumerate().skip(1) {
        let (f, t) = spans[i];
        let rb = readback(f, t);
        let ne = errors(f, t);
        checked += 1;
        let kind = name.to_string();
        if ne != 1 {
            // default (non-strict) ecmascript: one signature per attempt for "write silently ignored"; a
            // value that actually changes is reported below under its own signature in either mode
            let sig = if nonstrict && ne == 0 { format!("readonly:ecmascript-nonstrict:{}:write-silently-ignored", kind) } else { format!("readonly:{}:errors={}", kind, ne) };
            out.violation(
                ctx,
                "write-to-system-variable-no-error",
                &sig,
                &format!("attempt {} raised {} error.execution events (expected exactly 1)", name, ne),
                json!({"engine":"e1","index": index, "xml": xml, "attempt": name}),
            );
        }
        // read-back must equal the baseline, except the event name which is this attempt's event
        for (k, v) in &rb {
            let exp = if k == "_event.name" {
                format!("a{}", i)
            } else {
                base.iter().find(|(bk, _)| bk == k).map(|x| x.1.clone()).unwrap_or_default()
            };
            if *v != exp {
                out.violation(
                    ctx,
                    "system-variable-modified",
                    &format!("readonly:{}:modified:{}", kind, k),
                    &format!("after attempt {}: {} reads {:?}, expected {:?}", name, k, v, exp),
                    json!({"engine":"e1","index": index, "xml": xml, "attempt": name}),
                );
            }
        }
        if rb.len() != base.len() {
            out.violation(
                ctx,
                "system-variable-unreadable",
                &format!("readonly:{}:readback-incomplete", kind),
                &format!("after attempt {}: read-back {:?}", name, rb),
                json!({"engine":"e1","index": index, "xml": xml, "attempt": name}),
            );
        }
    }
    out.add("states", attempts.len() as u64);
    out.add("edges", (attempts.len() * 2) as u64);
    out.add("ref_comparisons", checked);
    out.outcomes.insert(format!("readonly|{}", attempts.len()));
    if run.finish() {
        out.violation(ctx, "session-thread-panicked", "readonly:panic", &format!("{:?}", take_panics()), json!({"engine":"e1","index": index, "xml": xml}));
    }
}

// ------------------------------------------------------------------------------------------ C12

/// (name, where, xml snippet, required error event class or "")
/// where: "content" = inside the e1 transition body, "cond" = cond attribute of the e1 transition,
/// "state" = child element of state s1 (entered on e1), "data" = <data> at the root, "scxml-attr" = attribute of <scxml>
fn oddities() -> Vec<(&'static str, &'static str, String, &'static str)> {
    let mut v: Vec<(&'static str, &'static str, String, &'static str)> = vec![];
    let mut c = |n: &'static str, x: &str, e: &'static str| v.push((n, "content", x.to_string(), e));
    // unknown / malformed targets and types
    c("send-unknown-session", r##"<send event="x" target="#_scxml_99999"/>"##, "error.communication");
    c("send-unknown-session-expr", r##"<send event="x" targetexpr="'#_scxml_' + 99999"/>"##, "error.communication");
    c("send-parent-without-parent", r##"<send event="x" target="#_parent"/>"##, "");
    c("send-unknown-invokeid", r##"<send event="x" target="#_nochild"/>"##, "error.communication");
    c("send-malformed-session-target", r##"<send event="x" target="#_scxml_abc"/>"##, "error.*");
    c("send-malformed-session-target-empty", r##"<send event="x" target="#_scxml_"/>"##, "error.*");
    c("send-unsupported-target", r##"<send event="x" target="bogus://nowhere"/>"##, "error.execution");
    c("send-unsupported-type", r##"<send event="x" type="http://unsupported.example/type"/>"##, "error.execution");
    c("send-unsupported-typeexpr", r##"<send event="x" typeexpr="'nonsense'"/>"##, "error.execution");
    c("send-internal-with-delay", r##"<send event="x" target="#_internal" delay="1s"/>"##, "error.execution");
    // erroring expressions in every attribute of send
    c("send-bad-eventexpr", r##"<send eventexpr="undefq + 1"/>"##, "error.execution");
    c("send-bad-targetexpr", r##"<send event="x" targetexpr="undefq + 1"/>"##, "error.execution");
    c("send-bad-typeexpr", r##"<send event="x" typeexpr="undefq + 1"/>"##, "error.execution");
    c("send-bad-delayexpr", r##"<send event="x" delayexpr="undefq + 1"/>"##, "error.execution");
    c("send-illegal-delay-text", r##"<send event="x" delayexpr="'abc'"/>"##, "error.execution");
    c("send-illegal-delay-unit", r##"<send event="x" delayexpr="'5 parsecs'"/>"##, "error.execution");
    c("send-negative-delay", r##"<send event="x" delayexpr="'-5s'"/>"##, "error.execution");
    c("send-huge-delay", r##"<send event="x" id="big" delayexpr="'99999999999999999999d'"/>"##, "");
    c("send-very-long-delay-d", r##"<send event="x" id="big2" delayexpr="'99999999999999d'"/>"##, "");
    c("send-very-long-delay-ms", r##"<send event="x" id="big3" delay="9223372036854775807ms"/>"##, "");
    c("send-very-long-delay-s", r##"<send event="x" id="big4" delay="9223372036854775s"/>"##, "");
    c("send-very-long-delay-frac", r##"<send event="x" id="big5" delay="1e300s"/>"##, "");
    // two attributes of one <send> that evaluate to the same stored value
    c("send-same-var-target-event", r##"<send targetexpr="sv" eventexpr="sv"/>"##, "");
    c("send-same-var-target-type", r##"<send event="x" targetexpr="sv" typeexpr="sv"/>"##, "");
    c("send-same-var-target-delay", r##"<send event="x" targetexpr="sv" delayexpr="sv"/>"##, "");
    c("send-same-var-target-param", r##"<send event="x" targetexpr="sv"><param name="p" expr="sv"/></send>"##, "");
    c("send-same-var-target-namelist", r##"<send event="x" targetexpr="sv" namelist="sv"/>"##, "");
    c("send-same-var-target-content", r##"<send event="x" targetexpr="sv"><content expr="sv"/></send>"##, "");
    c("send-same-var-target-idlocation", r##"<send event="x" targetexpr="sv" idlocation="sv"/>"##, "");
    c("send-same-var-event-type-delay", r##"<send eventexpr="sv" typeexpr="sv" delayexpr="sv"/>"##, "");
    c("send-same-var-event-type", r##"<send eventexpr="sv" typeexpr="sv"/>"##, "");
    c("send-same-var-event-type-valid", r##"<send eventexpr="st" typeexpr="st"/>"##, "");
    c("send-same-var-type-target-valid", r##"<send event="x" typeexpr="st" targetexpr="st"/>"##, "");
    c("send-same-var-event-delay", r##"<send eventexpr="sd" delayexpr="sd"/>"##, "");
    c("send-same-var-type-delay", r##"<send event="x" typeexpr="sd" delayexpr="sd"/>"##, "");
    c("send-same-var-event-param-content", r##"<send eventexpr="sv"><param name="p" expr="sv"/><param name="q" expr="sv"/></send>"##, "");
    c("send-same-var-all", r##"<send eventexpr="st" typeexpr="st" targetexpr="st" namelist="st"><param name="p" expr="st"/></send>"##, "");
    c("send-bad-namelist", r##"<send event="x" namelist="undefq"/>"##, "error.execution");
    c("send-bad-param-expr", r##"<send event="x"><param name="p" expr="undefq + 1"/></send>"##, "error.execution");
    c("send-bad-param-location", r##"<send event="x"><param name="p" location="undefq"/></send>"##, "error.execution");
    c("send-bad-content-expr", r##"<send event="x"><content expr="undefq + 1"/></send>"##, "error.execution");
    c("send-idlocation-not-a-location", r##"<send event="x" idlocation="1 + 1"/>"##, "");
    c("send-syntax-error-expr", r##"<send eventexpr="1 + * )"/>"##, "error.execution");
    c("cancel-bad-sendidexpr", r##"<cancel sendidexpr="undefq + 1"/>"##, "");
    c("cancel-unknown-sendid", r##"<cancel sendid="never-sent"/>"##, "");
    // erroring expressions elsewhere
    c("if-bad-cond", r##"<if cond="undefq + 1"><raise event="no"/></if>"##, "error.execution");
    c("if-syntax-error-cond", r##"<if cond="((("><raise event="no"/></if>"##, "error.execution");
    c("foreach-bad-array", r##"<foreach array="undefq" item="i"><raise event="no"/></foreach>"##, "error.execution");
    c("foreach-readonly-item", r##"<foreach array="[1,2]" item="_sessionid"><raise event="no"/></foreach>"##, "");
    c("assign-bad-location", r##"<assign location="undefq.x.y" expr="1"/>"##, "error.execution");
    c("assign-syntax-error-location", r##"<assign location="1 +" expr="1"/>"##, "error.execution");
    c("assign-bad-expr", r##"<assign location="v" expr="undefq + 1"/>"##, "error.execution");
    c("log-bad-expr", r##"<log expr="undefq + 1"/>"##, "error.execution");
    c("script-bad", r##"<script>undefq + 1</script>"##, "error.execution");
    c("script-syntax-error", r##"<script>1 + * )</script>"##, "error.execution");
    c("script-self-assign", r##"<script>v = v</script>"##, "");
    c("script-modulo-zero", r##"<script>v = 1 % 0</script>"##, "error.execution");
    c("in-unknown-state", r##"<if cond="In('nostate')"><raise event="no"/></if>"##, "");
    c("in-wrong-argument", r##"<if cond="In(5)"><raise event="no"/></if>"##, "error.execution");
    c("raise-odd-name", r##"<raise event="done.invoke.x"/>"##, "");
    v.push(("cond-bad", "cond", "undefq + 1".into(), "error.execution"));
    v.push(("cond-syntax-error", "cond", "1 + * )".into(), "error.execution"));
    v.push(("cond-in-unknown", "cond", "In('nostate')".into(), ""));
    let mut st = |n: &'static str, x: &str, e: &'static str| v.push((n, "state", x.to_string(), e));
    st("invoke-missing-file", r##"<invoke type="scxml" src="file:/nonexistent/child.scxml"/>"##, "");
    st("invoke-missing-relative-file", r##"<invoke src="nonexistent_child.scxml"/>"##, "");
    st("invoke-content-not-a-document", r##"<invoke><content>this is not a document</content></invoke>"##, "");
    st("invoke-content-wrong-root", r##"<invoke><content><notscxml/></content></invoke>"##, "");
    st("invoke-content-malformed-child", r##"<invoke><content><scxml xmlns="http://www.w3.org/2005/07/scxml"><state id="c"><transition type="sideways" target="c"/></state></scxml></content></invoke>"##, "");
    st("invoke-unsupported-type", r##"<invoke type="http://unsupported.example/type" src="x.scxml"/>"##, "");
    st("invoke-bad-typeexpr", r##"<invoke typeexpr="undefq + 1" src="x.scxml"/>"##, "error.execution");
    st("invoke-bad-srcexpr", r##"<invoke srcexpr="undefq + 1"/>"##, "error.execution");
    st("invoke-bad-namelist", r##"<invoke src="x.scxml" namelist="undefq"/>"##, "error.execution");
    st("invoke-bad-param", r##"<invoke src="x.scxml"><param name="p" expr="undefq + 1"/></invoke>"##, "error.execution");
    st("invoke-bad-content-expr", r##"<invoke><content expr="undefq + 1"/></invoke>"##, "error.execution");
    st("invoke-no-src-no-content", r##"<invoke id="nothing"/>"##, "");
    st("invoke-child-unsupported-datamodel", r##"<invoke><content><scxml xmlns="http://www.w3.org/2005/07/scxml" datamodel="xpath"><state id="c"/></scxml></content></invoke>"##, "");
    st("onentry-send-to-own-invoke-before-start", r##"<onentry><send event="x" target="#_kid"/></onentry><invoke id="kid" src="nonexistent_child.scxml"/>"##, "");
    st("donedata-bad-param", r##"<state id="inner"><transition event="fin" target="innerf"/></state><final id="innerf"><donedata><param name="p" expr="undefq + 1"/></donedata></final>"##, "");
    v.push(("data-bad-expr", "data", r##"<data id="x" expr="undefq + 1"/>"##.into(), "error.execution"));
    v.push(("data-syntax-error", "data", r##"<data id="x" expr="1 + * )"/>"##.into(), "error.execution"));
    v.push(("data-bad-text", "data", r##"<data id="x">undefq + 1</data>"##.into(), "error.execution"));
    v.push(("unsupported-datamodel", "scxml-attr", r##"datamodel="xpath""##.into(), ""));
    v.push(("empty-datamodel-name", "scxml-attr", r##"datamodel="""##.into(), ""));
    v
}

/// oddities that only make sense with a script engine behind the data model
fn ecma_oddities() -> Vec<(&'static str, &'static str, String, &'static str)> {
    let mut v: Vec<(&'static str, &'static str, String, &'static str)> = vec![];
    let mut c = |n: &'static str, x: &str| v.push((n, "content", x.to_string(), ""));
    c("foreach-push-to-iterated-array", r##"<foreach array="arr" item="it"><script>arr.push(it + 10)</script></foreach>"##);
    c("foreach-pop-from-iterated-array", r##"<foreach array="arr" item="it" index="ix"><script>arr.pop()</script></foreach>"##);
    c("foreach-replace-iterated-array", r##"<foreach array="arr" item="it"><assign location="arr" expr="[]"/></foreach>"##);
    c("script-throws-string", r##"<script>throw 'boom'</script>"##);
    c("script-throws-object", r##"<script>throw {a: 1}</script>"##);
    c("script-deep-recursion", r##"<script>function rec(n) { return rec(n + 1) + 1; } rec(0)</script>"##);
    c("script-redefines-in", r##"<script>In = 5</script>"##);
    c("script-deletes-event", r##"<script>delete _event.name</script>"##);
    c("script-huge-string", r##"<script>var big = 'x'; for (var k = 0; k &lt; 20; k++) { big = big + big; }</script>"##);
    c("assign-function-value", r##"<assign location="v" expr="function () { return 1; }"/>"##);
    c("assign-symbol-value", r##"<assign location="v" expr="Symbol('s')"/>"##);
    c("assign-cyclic-object", r##"<script>var cyc = {}; cyc.self = cyc; v = cyc</script>"##);
    c("send-cyclic-param", r##"<script>var cyc2 = {}; cyc2.self = cyc2</script><send event="x"><param name="p" expr="cyc2"/></send>"##);
    c("send-function-param", r##"<send event="x"><param name="p" expr="function () {}"/></send>"##);
    c("send-undefined-content", r##"<send event="x"><content expr="undefined"/></send>"##);
    c("log-object-with-throwing-tostring", r##"<log expr="({toString: function () { throw 'ts'; }})"/>"##);
    c("cond-object-with-throwing-valueof", r##"<if cond="({valueOf: function () { throw 'vo'; }}) &gt; 1"><raise event="no"/></if>"##);
    c("in-with-object-argument", r##"<if cond="In({})"><raise event="no"/></if>"##);
    v
}

fn c12_doc(odd: &[(&str, &str, String, &str)]) -> String {
    let mut content = String::new();
    let mut cond = String::new();
    let mut state = String::new();
    let mut data = String::new();
    let mut attr = String::from("datamodel=\"rfsm-expression\"");
    for (_, wh, x, _) in odd {
        match *wh {
            "content" => content.push_str(x),
            "cond" => cond = format!(" cond=\"{}\"", vh::xmlrender::esc_attr_default(x)),
            "state" => state.push_str(x),
            "data" => data.push_str(x),
            _ => attr = x.clone(),
        }
    }
    format!(
        r##"<scxml {ns} {attr} name="odd">
<datamodel><data id="v" expr="0"/><data id="sv" expr="'#_internal'"/><data id="st" expr="'scxml'"/><data id="sd" expr="'1ms'"/><data id="arr" expr="[1, 2]"/>{data}</datamodel>
<state id="s0">
 <transition event="e1"{cond} target="s1"><script>mark('before')</script>{content}<script>mark('after')</script></transition>
 <transition event="e1" target="s1"><script>mark('fallback')</script></transition>
</state>
<state id="s1">
 {state}
 <transition event="e2 fin" target="s0"/>
 <transition event="error" ><script>mark('saw', _event.name)</script></transition>
</state>
</scxml>"##,
        ns = XMLNS,
        attr = attr,
        data = data,
        cond = cond,
        content = content,
        state = state
    )
}

fn scenario_robust(ctx: &Ctx, out: &mut WorkerOut, index: usize, which: &[usize], ecma: bool) {
    let mut all = oddities();
    if ecma {
        all.extend(ecma_oddities());
        // data models other than the one of this slice are the business of the other slice
        for o in all.iter_mut() {
            if o.1 == "scxml-attr" {
                o.2 = "datamodel=\"ecmascript\"".to_string();
            }
        }
    }
    let odd: Vec<(&str, &str, String, &str)> = which.iter().map(|i| all[*i].clone()).collect();
    let names: Vec<&str> = odd.iter().map(|o| o.0).collect();
    let label = if ecma { format!("ecma:{}", names.join("+")) } else { names.join("+") };
    let mut xml = c12_doc(&odd);
    if ecma {
        xml = xml.replace("datamodel=\"rfsm-expression\"", "datamodel=\"ecmascript\"");
    }
    let replay = json!({"engine":"e1","index": index, "xml": xml, "oddities": names});
    let mut run = match Run::start(&xml, std::time::Duration::from_secs(15)) {
        Ok(r) => r,
        Err(_) => {
            // not accepted by the reader: outside the property
            out.add("documents_rejected_by_reader", 1);
            return;
        }
    };
    out.add("runs", 1);
    let events = ["e1", "e2", "zz", "e1", "fin", "e2", "error.execution", "e1"];
    let mut idle = 1;
    let mut sent: Vec<&str> = vec![];
    let mut w = run.wait_idle(idle);
    for e in events {
        if w != Wait::Idle {
            break;
        }
        sent.push(e);
        run.send_name(e);
        idle += 1;
        w = run.wait_idle(idle);
        out.add("edges", 1);
    }
    let recs = run.log.snapshot();
    let seen_errors: Vec<String> = recs
        .iter()
        .filter_map(|(t, r)| match r {
            Rec::IRecv(e) if *t == 0 && e.name.starts_with("error.") => Some(e.name.clone()),
            _ => None,
        })
        .collect();
    match w {
        Wait::Idle => {}
        Wait::Timeout => {
            out.violation(ctx, "session-stops-responding", &format!("wedge:{}", label), &format!("after events {:?} the session never reached its idle point again | {}", sent, label), replay.clone());
            run.finish();
            return;
        }
        Wait::Died => {
            let p = take_panics();
            let site = p.last().map(|x| x.2.clone()).unwrap_or_default();
            out.violation(ctx, "session-thread-panicked", &format!("panic:{}:{}", label, site.rsplit('/').next().unwrap_or("")), &format!("after events {:?}: {:?} | {}", sent, p, label), replay.clone());
            run.finish();
            return;
        }
        Wait::Ended => {
            out.violation(ctx, "session-ended-unexpectedly", &format!("ended:{}", label), &format!("after events {:?} the session terminated | {}", sent, label), replay.clone());
            run.finish();
            return;
        }
    }
    // required error event classes
    for (n, _, _, req) in &odd {
        // with two oddities one can prevent the other from being executed (aborted block, guard
        // counted as false): the required error class is checked on single-oddity documents only
        if req.is_empty() || odd.len() != 1 || ecma {
            continue;
        }
        let ok = if *req == "error.*" { !seen_errors.is_empty() } else { seen_errors.iter().any(|e| e == req) };
        out.add("ref_comparisons", 1);
        if !ok {
            out.violation(
                ctx,
                "error-event-missing",
                &format!("no-error-event:{}", n),
                &format!("oddity {} must appear as {} on the internal queue; internal error events seen: {:?}", n, req, seen_errors),
                replay.clone(),
            );
        }
    }
    // poisoned locks
    if run.session.global_data.is_poisoned() {
        out.violation(ctx, "lock-poisoned", &format!("poisoned-global:{}", label), &label, replay.clone());
    }
    if run.executor.state.arc.is_poisoned() {
        out.violation(ctx, "lock-poisoned", &format!("poisoned-executor:{}", label), &label, replay.clone());
    }
    // must still be cancellable
    // a child session thread that unwound (recorder dropped without interpret() returning);
    // panics that rFSM catches itself are not failures
    let caught_or_not = take_panics();
    // let started child sessions reach their idle point (or end) before judging them
    let _ = run.log.wait(
        |i| (1..i.threads()).all(|t| i.idle[t] > 0 || i.ended[t] || i.dropped[t]),
        std::time::Duration::from_secs(5),
    );
    let dead_children: Vec<usize> = {
        let g = run.log.inner.lock().unwrap();
        (1..g.threads()).filter(|i| g.dropped[*i] && !g.ended[*i]).collect()
    };
    if !dead_children.is_empty() {
        let site = caught_or_not.last().map(|x| x.2.clone()).unwrap_or_default();
        out.violation(ctx, "child-session-thread-panicked", &format!("thread-panic:{}:{}", label, site.rsplit('/').next().unwrap_or("")), &format!("{:?} | {}", caught_or_not, label), replay.clone());
    }
    let log = run.log.clone();
    let wd = run.watchdog;
    let panicked = run.finish();
    let ended = log.wait(|i| i.threads() > 0 && (i.ended[0] || i.dropped[0]), wd);
    if panicked {
        out.violation(ctx, "session-thread-panicked", &format!("panic-at-cancel:{}", label), &format!("{:?} | {}", take_panics(), label), replay.clone());
    } else if !ended {
        out.violation(ctx, "not-cancellable", &format!("not-cancellable:{}", label), &label, replay);
    }
    out.add("states", 1);
    out.outcomes.insert(format!("{}|{:?}", odd.iter().map(|o| o.3).collect::<Vec<_>>().join(","), seen_errors.len().min(3)));
    if out.samples.is_empty() {
        out.sample(json!({"oddities": names, "events": sent, "internal_error_events": seen_errors, "xml": xml}));
    }
}

fn run_scenario(ctx: &Ctx, out: &mut WorkerOut, index: usize, name: &str, _label: &str) {
    out.add("documents", 1);
    if let Some(rest) = name.strip_prefix("robust:") {
        let which: Vec<usize> = rest.split(',').filter(|x| !x.is_empty()).map(|x| x.parse().unwrap()).collect();
        scenario_robust(ctx, out, index, &which, false);
        return;
    }
    if let Some(rest) = name.strip_prefix("robust@ecma:") {
        let which: Vec<usize> = rest.split(',').filter(|x| !x.is_empty()).map(|x| x.parse().unwrap()).collect();
        scenario_robust(ctx, out, index, &which, true);
        return;
    }
    match name {
        "null-content" => scenario_null_content(ctx, out, index),
        "event-copy-alias" => scenario_event_copy_alias(ctx, out, index),
        "in-after-invoke" => scenario_in_after_invoke(ctx, out, index),
        "foreach-sources" => scenario_foreach_sources(ctx, out, index, "rfsm-expression"),
        "foreach-sources@ecmascript" => scenario_foreach_sources(ctx, out, index, "ecmascript"),
        "event-fields" => scenario_event_fields(ctx, out, index, "rfsm-expression"),
        "readonly" => scenario_readonly(ctx, out, index, "rfsm-expression"),
        "sysvar-data" => scenario_sysvar_data(ctx, out, index, "rfsm-expression"),
        "sysvar-data@ecmascript" => scenario_sysvar_data(ctx, out, index, "ecmascript"),
        "event-fields@ecmascript" => scenario_event_fields(ctx, out, index, "ecmascript"),
        "readonly@ecmascript" => scenario_readonly(ctx, out, index, "ecmascript"),
        "readonly@ecmascript-nonstrict" => {
            vh::runner::ECMA_STRICT.store(false, std::sync::atomic::Ordering::Relaxed);
            scenario_readonly(ctx, out, index, "ecmascript-nonstrict");
            vh::runner::ECMA_STRICT.store(true, std::sync::atomic::Ordering::Relaxed);
        }
        _ => panic!("unknown scenario {}", name),
    }
}

fn worker(ctx: &Ctx) {
    silence_stdout();
    let mut out = WorkerOut::default();
    let mut index = 0usize;
    let only: Option<usize> = ctx
        .extra
        .iter()
        .position(|x| x == "--only")
        .map(|p| ctx.extra[p + 1].parse().unwrap());
    let limit: Option<usize> = ctx
        .extra
        .iter()
        .position(|x| x == "--limit")
        .map(|p| ctx.extra[p + 1].parse().unwrap());
    let mut stop = false;
    let mut hard = 0;
    // C12: the subject may kill the whole process (stack overflow inside a script engine, abort). The worker keeps
    // its findings in a state file after every item; a respawned worker attributes the death to the item that was in
    // flight (a verdict for this property: the session crashed) and carries on behind it.
    let persistent = ctx.prop == "C12" && ctx.out.is_some();
    let mut resume_after: Option<usize> = None;
    if persistent {
        let o = ctx.out.clone().unwrap();
        if let (Ok(pr), Some(st)) = (std::fs::read_to_string(format!("{}.progress", o)), WorkerOut::load_state(&format!("{}.state", o))) {
            out = st;
            let mut it = pr.splitn(2, ' ');
            let idx: usize = it.next().unwrap_or("0").parse().unwrap_or(0);
            let label = it.next().unwrap_or("").to_string();
            let errtail: String = std::fs::read_to_string(o.replace(".json", ".err"))
                .unwrap_or_default()
                .lines()
                .filter(|l| l.contains("overflow") || l.contains("abort") || l.contains("fatal"))
                .last()
                .unwrap_or("")
                .chars()
                .take(160)
                .collect();
            let what = label.rsplit(' ').find(|x| !x.is_empty()).unwrap_or("").to_string();
            out.violation(
                ctx,
                "process-abort",
                &format!("process-abort:{}", label.trim().rsplit(' ').next().unwrap_or("")),
                &format!("the whole process died while this document was running (item #{} {}): {}", idx, label.trim(), errtail),
                json!({"engine":"e1","index": idx, "label": label, "scenario": what}),
            );
            resume_after = Some(idx);
            out.save_state(&format!("{}.state", o));
        }
    }
    families(ctx, &mut |item: Item| {
        let my = index;
        index += 1;
        if stop || !ctx.mine(my) {
            return;
        }
        if let Some(r) = resume_after {
            if my <= r {
                return;
            }
        }
        if let Some(o) = only {
            if o != my {
                return;
            }
        }
        if let Some(l) = limit {
            if my >= l {
                return;
            }
        }
        if let Some(o) = &ctx.out {
            let _ = std::fs::write(format!("{}.progress", o), format!("{} {}", my, item.label));
        }
        if let Some(sc) = &item.opts.scenario {
            if persistent && resume_after.is_none() && !std::path::Path::new(&format!("{}.state", ctx.out.clone().unwrap())).exists() {
                out.save_state(&format!("{}.state", ctx.out.clone().unwrap()));
            }
            run_scenario(ctx, &mut out, my, sc, &item.label);
            if persistent {
                out.save_state(&format!("{}.state", ctx.out.clone().unwrap()));
            }
            return;
        }
        let nonstrict = item.label.starts_with("ecmascript nonstrict");
        if nonstrict {
            vh::runner::ECMA_STRICT.store(false, std::sync::atomic::Ordering::Relaxed);
        }
        let mut ex = Explorer::new(&item.doc, item.opts.clone());
        ex.sig_hint = item.sig_hint.clone();
        ex.explore();
        if nonstrict {
            vh::runner::ECMA_STRICT.store(true, std::sync::atomic::Ordering::Relaxed);
        }
        let r = &ex.rep;
        out.add("documents", 1);
        out.add("states", r.states as u64);
        out.add("edges", r.edges as u64);
        out.add("runs", r.runs as u64);
        out.add("macrosteps", r.macrosteps as u64);
        out.add("microsteps", r.microsteps as u64);
        out.add("ref_comparisons", r.ref_comparisons as u64);
        out.add("replays_equal", r.replays_equal as u64);
        out.add("burst_equal", r.burst_equal as u64);
        out.add("mark_snapshots_checked", r.marks_checked as u64);
        out.add("legal_configuration_checks", r.legal_checks as u64);
        out.max("depth", r.max_depth_seen as u64);
        out.max("states_per_doc", r.states as u64);
        out.flag("depth_cap_hit", r.depth_capped);
        out.flag("state_cap_hit", r.state_capped);
        for c in &r.distinct_cfgs {
            if out.outcomes.len() < 5000 {
                out.outcomes.insert(format!("{}|{:?}", shape_of_label(&item.label), c));
            }
        }
        if let Some(s) = &r.sample {
            if r.states > 2 || out.samples.is_empty() {
                out.sample(json!({"family_item": item.label, "index": my, "explored": s, "states": r.states, "edges": r.edges}));
            }
        }
        for v in r.violations.iter().chain(r.soft_violations.iter()) {
            out.violation(
                ctx,
                &v.clause,
                &v.sig,
                &format!("{} | item #{} {}", v.detail, my, item.label),
                json!({"engine":"e1","index": my, "label": item.label, "history": v.history, "xml": ex.xml}),
            );
        }
        if r.violations.len() > 0 {
            hard += 1;
        }
        if hard >= 5 {
            stop = true;
        }
    });
    out.add("items_enumerated", if ctx.worker == Some(0) || ctx.worker.is_none() { index as u64 } else { 0 });
    out.write(ctx);
}

fn shape_of_label(l: &str) -> String {
    l.split(' ').take(2).collect::<Vec<_>>().join(" ")
}

fn replay(ctx: &Ctx, path: &str) -> i32 {
    let txt = std::fs::read_to_string(path).expect("replay file");
    let v: serde_json::Value = serde_json::from_str(&txt).expect("replay json");
    let index = v["index"].as_u64().unwrap() as usize;
    let history: Vec<String> = v["history"]
        .as_array()
        .map(|a| a.iter().map(|x| x.as_str().unwrap().to_string()).collect())
        .unwrap_or_default();
    let mut found = None;
    let mut i = 0usize;
    families(ctx, &mut |item: Item| {
        if i == index {
            found = Some(item);
        }
        i += 1;
    });
    let item = found.expect("item index not in family");
    if v["clause"].as_str() == Some("process-abort") && !ctx.has("--in-child") {
        // the subject kills the process: run the item in a child process and look at how it ends
        let exe = std::env::current_exe().unwrap();
        let mut args: Vec<String> = std::env::args().skip(1).collect();
        args.push("--in-child".into());
        let st = std::process::Command::new(exe).args(&args).status().expect("spawn replay child");
        use std::os::unix::process::ExitStatusExt;
        if st.signal().is_some() {
            eprintln!("the process running item #{} {} was killed by signal {:?}: VIOLATION reproduced", index, item.label, st.signal());
            println!("VIOLATION property={} replay={}", ctx.prop, path);
            return 1;
        }
        eprintln!("the process running item #{} ended normally ({:?})", index, st.code());
        return if st.code() == Some(1) { 1 } else { 0 };
    }
    if let Some(sc) = &item.opts.scenario {
        // scripted scenario: re-run it twice; reproduced if the recorded signature shows up again
        let want = v["signature"].as_str().unwrap_or("").to_string();
        let mut rc = 0;
        for round in 0..2 {
            let mut out = WorkerOut::default();
            let rctx = Ctx { worker: Some(99), ..parse_args() };
            run_scenario(&rctx, &mut out, index, sc, &item.label);
            let hit = out.violations.iter().any(|x| x["sig"].as_str() == Some(want.as_str()));
            eprintln!("round {}: scenario {} -> {} violations, recorded signature {}", round, sc, out.violations.len(), if hit { "reproduced" } else { "not reproduced" });
            for x in &out.violations {
                eprintln!("  clause={} sig={}\n  {}", x["clause"], x["sig"], x["detail"]);
            }
            if hit {
                rc = 1;
            }
        }
        if rc == 1 {
            println!("VIOLATION property={} replay={}", ctx.prop, path);
        }
        return rc;
    }
    eprintln!("replaying item #{} {}\nhistory {:?}\n{}", index, item.label, history, item.doc.to_xml());
    let mut rc = 0;
    for round in 0..2 {
        let mut ex = Explorer::new(&item.doc, item.opts.clone());
        let ok = ex.replay_history(&history);
        eprintln!("round {}: {}", round, if ok { "no violation" } else { "VIOLATION reproduced" });
        for v in &ex.rep.violations {
            eprintln!("  clause={} history={:?}\n  {}", v.clause, v.history, v.detail);
        }
        if !ok {
            rc = 1;
        }
    }
    if rc == 1 {
        println!("VIOLATION property={} replay={}", ctx.prop, path);
    }
    rc
}

fn main() {
    let ctx = parse_args();
    if ctx.has("--ecma") {
        vh::runner::ECMA_STRICT.store(true, std::sync::atomic::Ordering::Relaxed);
    }
    if let Some(p) = &ctx.replay {
        std::process::exit(replay(&ctx, p));
    }
    if ctx.worker.is_some() {
        worker(&ctx);
        return;
    }
    // C12: a subject that kills its process is respawned behind the fatal item (see worker())
    let agg = if ctx.prop == "C12" { run_workers_resumable(&ctx, 60) } else { run_workers(&ctx) };
    let common_assume: Vec<String> = vec![
        "generated document families up to the stated size bounds; larger documents are not covered".into(),
        "observation through the public Tracer callbacks, a custom Action (mark) and GlobalData read at the idle point".into(),
        "a 20 s wall-clock watchdog without reaching the idle point is the only hang detector".into(),
        "reference interpreter /verif/harness/src/refint.rs is the oracle for the W3C algorithm".into(),
    ];
    let (rule, level_assumptions): (&str, Vec<String>) = match ctx.prop.as_str() {
        "C01" => (
            "every kinded ordered state tree up to the size bound (x history variants) with every candidate transition on its own event (family 'singles') and every pair of simultaneously enable-able transitions on one event from every legal root initial specification (family 'pairs'); complete reachable graph of canonical idle states per document; a state is (configuration, history values, data values); invariants of a legal configuration evaluated after start-up and after every microstep, enter/exit discipline inside microsteps, live configuration snapshots from the mark action",
            common_assume.clone(),
        ),
        "C02" => (
            "same document families as C01; every edge (one external event = one macrostep of a real session) is compared observation by observation (selected transitions by document position, exit order, content marks, entry order, internal events) and state by state with the reference interpreter; the same history re-executed must reproduce the identical trace",
            common_assume.clone(),
        ),
        "C03" => (
            "three-state ring documents: every combination of transition triggers (external, internal x/y, guarded eventless, error.execution) and content producers (raise, send #_internal, self-send, failing assign) in transitions and onentry; complete reachable graph; every edge compared with the reference order (eventless first, oldest internal event next, external last); every run replayed with all events enqueued up-front (burst) and compared",
            common_assume.clone(),
        ),
        "C06" => (
            "every kinded state tree up to the bound with one history pseudo-state (every parent, shallow/deep, every legal default target) or two history pseudo-states, every candidate transition (including history targets) on its own event; complete reachable graph covers every recordable history value; entry sets, default-transition content position and recorded history values compared with the reference on every edge",
            common_assume.clone(),
        ),
        "C07" => (
            "every kinded state tree up to the bound that contains final states, with donedata variants (none / params / content), observers for done.state events in every state, every candidate transition on its own event, the platform cancel event sent from every reachable state, and burst delivery (events queued behind the one that reaches the top-level final); traces, final configuration and done events compared with the reference",
            common_assume.clone(),
        ),
        "C08" => (
            "content blocks hosted in onentry, onexit, transition, <initial>, history default and a compound state's onentry of a five-state skeleton: every leaf kind (mark, raise, assign to declared / undeclared / read-only location, assign with erroring value, log, script, erroring mark argument, send #_internal), every if / if-else / if-elseif(-else) over conditions {true, false, error} x sub-block menu, every foreach over {[], [x], [x,y], erroring expression, non-array} x sub-blocks x with/without index, single and framed by marks, every ordered pair of leaves (thorough: depth-2 nestings with an error at each level); complete reachable graph over events go/back/hist; marks, internal events (error.execution, raised events) and data values compared with the reference executor on every edge",
            common_assume.clone(),
        ),
        "C09" => (
            "In(x) for every state x evaluated by a mark in every onentry, onexit and transition body of every kinded state tree up to the bound with every candidate transition (complete reachable graphs, values compared with the reference configuration at that content position); In(x)/!In(x) guards on the candidate transitions for rfsm-expression and the null data model; early and late binding with data at root, state, nested and parallel levels, re-entry and modification; scripted scenarios: the fields of _event read back for host events with params / content / ids, raised, #_internal-sent, self-sent and platform events (compared with the received event object), and 18 write attempts on _sessionid, _name, _ioprocessors, _event and its fields through <assign> and <script> (each must raise exactly one error.execution and change nothing)",
            common_assume.clone(),
        ),
        "C12" => (
            "a conformant base document with exactly one oddity at a time (thorough: every ordered pair) from a list of 70 oddities of the two kinds the property names: unknown / malformed / unsupported send targets and types, a parent that does not exist, invokes that can not be started (missing file, non-document content, malformed child, unsupported type or data model), and an erroring or syntactically wrong expression in every attribute that takes one (cond, if, foreach, assign location/expr, log, script, data, send eventexpr/targetexpr/typeexpr/delayexpr/namelist/param/content/idlocation, cancel, invoke typeexpr/srcexpr/namelist/param/content, donedata), each driven through 8 external events (including unmatched ones and an external event named like a platform event) and then cancelled; oracle: session thread alive and back at its idle point after every event, required error event class on the internal queue, no thread panics, locks not poisoned, cancel terminates the session",
            common_assume.clone(),
        ),
        "C19" => (
            "probe documents: one parallel state with one region per descriptor list (descriptors of 1-2 tokens over {a, ab, b, A, e-acute, e-acute+e} in the spellings d, d., d.*, plus *, plus inner empty tokens; thorough: all ordered pairs of descriptors); every event name of 1-3 tokens over the alphabet incl. the empty token is sent; the set of regions whose transition fired is compared with a token-prefix oracle",
            common_assume.clone(),
        ),
        _ => ("", common_assume.clone()),
    };
    let spec = EvidenceSpec {
        level: "model_checking",
        rule,
        assumptions: level_assumptions,
        states_key: "states",
        transitions_key: "edges",
        validated_key: if ctx.prop == "C01" { "legal_configuration_checks" } else { "ref_comparisons" },
        cap_flags: vec!["depth_cap_hit", "state_cap_hit"],
        extra: Map::new(),
    };
    let rc = conclude(&ctx, &agg, spec);
    std::process::exit(rc);
}

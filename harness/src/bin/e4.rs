//! E4: controlled-scheduler exploration of thread interleavings of real rFSM sessions
//! (C13 C14 C15 C16 C17). Needs the hooks build (--cfg rufsm_verif).

#[cfg(not(rufsm_verif))]
fn main() {
    eprintln!("e4 needs --cfg rufsm_verif");
    std::process::exit(2);
}

#[cfg(rufsm_verif)]
fn main() {
    imp::main();
}

#[cfg(rufsm_verif)]
mod imp {
    use rufsm::actions::ActionWrapper;
    use rufsm::fsm::{self, Event, FinishMode, ScxmlSession};
    use rufsm::fsm_executor::FsmExecutor;
    use rufsm::verif_sync;
    use serde_json::{json, Map, Value};
    use std::collections::BTreeSet;
    use std::sync::{Arc, Mutex};
    use vh::infra::*;
    use vh::rec::*;
    use vh::runner::{globals, parse, take_panics};
    use vh::sched::*;

    const NS: &str = "xmlns=\"http://www.w3.org/2005/07/scxml\" version=\"1.0\" datamodel=\"rfsm-expression\"";

    /// starts a session inside a controlled execution
    fn start(executor: &FsmExecutor, xml: &str, log: &Arc<RunLog>) -> ScxmlSession {
        let g = globals();
        let mut fsm = parse(xml).expect("harness document must parse");
        fsm.tracer = Box::new(Recorder::new(log.clone()));
        let mut actions = ActionWrapper::new();
        actions.add_action(
            "mark",
            Box::new(MarkAction {
                current: g.current.clone(),
            }),
        );
        fsm::start_fsm_with_data_and_finish_mode(fsm, actions, Box::new(executor.clone()), &[], FinishMode::KEEP_CONFIGURATION)
    }

    /// `notify(x)`: callable from documents; sends x to the harness body through a (controlled) channel
    #[derive(Clone)]
    struct NotifyAction {
        tx: Arc<Mutex<verif_sync::mpsc::Sender<String>>>,
    }

    impl rufsm::actions::Action for NotifyAction {
        fn execute(&self, arguments: &[rufsm::datamodel::Data], _global: &rufsm::fsm::GlobalData) -> Result<rufsm::datamodel::Data, String> {
            let v = arguments.iter().map(|a| a.to_string()).collect::<Vec<_>>().join(",");
            let _ = self.tx.lock().unwrap().send(v);
            Ok(rufsm::datamodel::Data::Boolean(true))
        }
        fn get_copy(&self) -> Box<dyn rufsm::actions::Action> {
            Box::new(self.clone())
        }
    }

    /// `poke(sid)`: a custom action that uses the executor of its session (sends event "poked" to session sid)
    #[derive(Clone)]
    struct PokeAction {}

    impl rufsm::actions::Action for PokeAction {
        fn execute(&self, arguments: &[rufsm::datamodel::Data], global: &rufsm::fsm::GlobalData) -> Result<rufsm::datamodel::Data, String> {
            let sid: u32 = arguments.first().map(|a| a.to_string()).unwrap_or_default().parse().unwrap_or(0);
            if let Some(ex) = &global.executor {
                let _ = ex.send_to_session(sid, Event::new_simple("poked"));
            }
            Ok(rufsm::datamodel::Data::Boolean(true))
        }
        fn get_copy(&self) -> Box<dyn rufsm::actions::Action> {
            Box::new(self.clone())
        }
    }

    /// starts a session whose documents (and invoked children) can call notify(..)
    fn start_n(executor: &FsmExecutor, xml: &str, log: &Arc<RunLog>, tx: &verif_sync::mpsc::Sender<String>) -> ScxmlSession {
        let g = globals();
        let mut fsm = parse(xml).expect("harness document must parse");
        fsm.tracer = Box::new(Recorder::new(log.clone()));
        let mut actions = ActionWrapper::new();
        actions.add_action("mark", Box::new(MarkAction { current: g.current.clone() }));
        actions.add_action("notify", Box::new(NotifyAction { tx: Arc::new(Mutex::new(tx.clone())) }));
        fsm::start_fsm_with_data_and_finish_mode(fsm, actions, Box::new(executor.clone()), &[], FinishMode::KEEP_CONFIGURATION)
    }

    /// waits until every name in `want` was notified
    fn wait_for(rx: &verif_sync::mpsc::Receiver<String>, want: &[&str]) {
        let mut missing: Vec<String> = want.iter().map(|x| x.to_string()).collect();
        while !missing.is_empty() {
            match rx.recv() {
                Ok(v) => {
                    if let Some(p) = missing.iter().position(|m| *m == v) {
                        missing.remove(p);
                    }
                }
                Err(_) => break,
            }
        }
    }

    fn spawn<F: FnOnce() + Send + 'static>(f: F) -> verif_sync::thread::JoinHandle<()> {
        verif_sync::thread::Builder::new().spawn(f).unwrap()
    }

    fn cancel_and_join(mut s: ScxmlSession) {
        let _ = s.sender.send(Box::new(Event::new_simple(fsm::EVENT_CANCEL_SESSION)));
        if let Some(h) = s.thread.take() {
            let _ = h.join();
        }
    }

    /// observation of one execution handed to the oracle
    pub struct Obs {
        pub result: ExecResult,
        pub recs: Vec<(u32, Rec)>,
        /// values the body published (session ids, generated ids ...)
        pub notes: Vec<String>,
    }

    type Body = Box<dyn Fn(Arc<RunLog>, Arc<Mutex<Vec<String>>>) -> Box<dyn FnOnce() + Send + 'static> + Send + Sync>;
    type Oracle = Box<dyn Fn(&Obs) -> Result<String, (String, String)> + Send + Sync>;

    pub struct Scenario {
        pub name: &'static str,
        pub quick_bound: usize,
        pub thorough_bound: usize,
        pub atomics: bool,
        pub body: Body,
        /// Ok(outcome class) or Err((signature suffix, message))
        pub oracle: Oracle,
    }

    // -------------------------------------------------------------------------------------- oracles

    fn xrecv_names(recs: &[(u32, Rec)], tid: u32) -> Vec<String> {
        recs.iter()
            .filter_map(|(t, r)| match r {
                Rec::XRecv(e) if *t == tid => Some(e.name.clone()),
                _ => None,
            })
            .collect()
    }

    fn basic_outcome(o: &Obs) -> Result<(), (String, String)> {
        match &o.result.outcome {
            Outcome::Finished => {}
            Outcome::Deadlock(d) => {
                let mut edges: Vec<String> = d
                    .iter()
                    .filter(|(_, holds, wants)| wants.starts_with("lock") && !holds.is_empty())
                    .map(|(t, holds, wants)| format!("{} holds {:?} wants {}", t.lines().next().unwrap_or(""), holds, wants))
                    .collect();
                edges.sort();
                return Err(("deadlock".into(), format!("threads wait for each other's locks forever:\n  {}", d.iter().map(|(t, h, w)| format!("{} holds {:?} waits for: {}", t, h, w)).collect::<Vec<_>>().join("\n  "))));
            }
            Outcome::Stuck(d) => return Err(("stuck".into(), format!("no thread can continue: {:?}", d))),
            Outcome::Horizon => return Err(("horizon".into(), "step horizon reached (livelock candidate)".into())),
            Outcome::Divergence(m) => return Err(("MACHINERY-divergence".into(), m.clone())),
        }
        if let Some(t) = o.result.threads.iter().find(|t| t.2) {
            return Err(("thread-panicked".into(), format!("controlled thread {} panicked: {:?}", t.0, take_panics())));
        }
        Ok(())
    }

    // -------------------------------------------------------------------------------------- scenarios

    fn c13_doc() -> String {
        format!(
            r##"<scxml {ns} name="c13"><state id="s">
 <transition event="r"><script>mark('r-done')</script></transition>
 <transition event="*"><script>mark('got', _event.name)</script><raise event="r"/></transition>
</state></scxml>"##,
            ns = NS
        )
    }

    /// per-event macrostep atomicity + exactly once + per-sender order
    fn c13_oracle(senders: Vec<Vec<String>>) -> Oracle {
        Box::new(move |o: &Obs| {
            basic_outcome(o)?;
            let got = xrecv_names(&o.recs, main_tid(&o.recs));
            let got_wo_cancel: Vec<String> = got.iter().filter(|n| *n != fsm::EVENT_CANCEL_SESSION).cloned().collect();
            let mut sent: Vec<String> = senders.iter().flatten().cloned().collect();
            let mut g2 = got_wo_cancel.clone();
            sent.sort();
            g2.sort();
            if sent != g2 {
                return Err(("exactly-once".into(), format!("sent {:?} but processed {:?}", sent, got_wo_cancel)));
            }
            for s in &senders {
                let order: Vec<&String> = got_wo_cancel.iter().filter(|n| s.contains(n)).collect();
                let exp: Vec<&String> = s.iter().collect();
                if order != exp {
                    return Err(("sender-order".into(), format!("one sender sent {:?}, processed in order {:?}", exp, order)));
                }
            }
            // atomicity: XRecv(e) Mark(got,e) IRecv(r) Mark(r-done) before the next XRecv
            let t = main_tid(&o.recs);
            let seq: Vec<String> = o
                .recs
                .iter()
                .filter(|(tt, _)| *tt == t)
                .filter_map(|(_, r)| match r {
                    Rec::XRecv(e) => Some(format!("X:{}", e.name)),
                    // platform error events raised asynchronously by a failing delayed send (scenario
                    // async-internal-event) are internal events of whatever macrostep comes next
                    Rec::IRecv(e) if e.name.starts_with("error.") => None,
                    Rec::IRecv(e) => Some(format!("I:{}", e.name)),
                    Rec::Mark { args, .. } if args.first().map(|a| a == "err").unwrap_or(false) => None,
                    Rec::Mark { args, .. } => Some(format!("M:{}", args.join(","))),
                    _ => None,
                })
                .collect();
            let mut i = 0;
            while i < seq.len() {
                if let Some(name) = seq[i].strip_prefix("X:") {
                    if name == fsm::EVENT_CANCEL_SESSION {
                        break;
                    }
                    let exp = vec![format!("M:got,{}", name), "I:r".to_string(), "M:r-done".to_string()];
                    let have: Vec<String> = seq.iter().skip(i + 1).take(3).cloned().collect();
                    if have != exp {
                        return Err(("macrostep-overlap".into(), format!("after {} expected {:?}, trace has {:?} (full: {:?})", seq[i], exp, have, seq)));
                    }
                    i += 4;
                } else {
                    return Err(("macrostep-overlap".into(), format!("unexpected record {} outside a macrostep (full: {:?})", seq[i], seq)));
                }
            }
            Ok(got_wo_cancel.join(">"))
        })
    }

    /// thread index of the observed session: the one whose content executes mark('got', ..);
    /// before it processed anything: the first thread that produced tracer records
    fn main_tid(recs: &[(u32, Rec)]) -> u32 {
        recs.iter()
            .find(|(_, r)| matches!(r, Rec::Mark { args, .. } if args.first().map(|a| a == "got").unwrap_or(false)))
            .map(|r| r.0)
            .unwrap_or_else(|| recs.first().map(|r| r.0).unwrap_or(0))
    }

    fn scenarios(prop: &str) -> Vec<Scenario> {
        let mut v: Vec<Scenario> = vec![];
        match prop {
            "C13" => {
                // two host threads, two events each, through the session's sender
                let s1 = vec!["a1".to_string(), "a2".to_string()];
                let s2 = vec!["b1".to_string(), "b2".to_string()];
                let (x1, x2) = (s1.clone(), s2.clone());
                v.push(Scenario {
                    name: "two-hosts-x2-sender",
                    quick_bound: 2,
                    thorough_bound: 3,
                    atomics: false,
                    body: Box::new(move |log, _notes| {
                        let (x1, x2) = (x1.clone(), x2.clone());
                        Box::new(move || {
                            let ex = FsmExecutor::new_without_io_processor();
                            let sess = start(&ex, &c13_doc(), &log);
                            let snd1 = sess.sender.clone();
                            let snd2 = sess.sender.clone();
                            let h1 = spawn(move || {
                                for e in x1 {
                                    let _ = snd1.send(Box::new(Event::new_simple(&e)));
                                }
                            });
                            let h2 = spawn(move || {
                                for e in x2 {
                                    let _ = snd2.send(Box::new(Event::new_simple(&e)));
                                }
                            });
                            let _ = h1.join();
                            let _ = h2.join();
                            cancel_and_join(sess);
                        })
                    }),
                    oracle: c13_oracle(vec![s1.clone(), s2.clone()]),
                });
                // mixed producers: host through the executor, a sibling session through <send target=#_scxml_id>
                let s1 = vec!["h1".to_string(), "h2".to_string()];
                let s2 = vec!["sib1".to_string(), "sib2".to_string()];
                let x1 = s1.clone();
                v.push(Scenario {
                    name: "host-via-executor-and-sibling-session",
                    quick_bound: 1,
                    thorough_bound: 2,
                    atomics: false,
                    body: Box::new(move |log, _notes| {
                        let x1 = x1.clone();
                        Box::new(move || {
                            let ex = FsmExecutor::new_without_io_processor();
                            let sess = start(&ex, &c13_doc(), &log);
                            let sid = sess.session_id;
                            let sib_doc = format!(
                                r##"<scxml {ns} name="sib"><state id="w"><transition event="go" target="d">
<send event="sib1" target="#_scxml_{sid}"/><send event="sib2" target="#_scxml_{sid}"/></transition></state><state id="d"/></scxml>"##,
                                ns = NS,
                                sid = sid
                            );
                            let sib = start(&ex, &sib_doc, &log);
                            let ex2 = ex.clone();
                            let h1 = spawn(move || {
                                for e in x1 {
                                    let _ = ex2.send_to_session(sid, Event::new_simple(&e));
                                }
                            });
                            let _ = sib.sender.send(Box::new(Event::new_simple("go")));
                            let _ = h1.join();
                            cancel_and_join(sib);
                            cancel_and_join(sess);
                        })
                    }),
                    oracle: c13_oracle(vec![s1, s2]),
                });
                // a host sends through the executor while another host thread starts a session
                // (start_fsm holds the executor-state lock): contention on the session table
                let s1 = vec!["h1".to_string(), "h2".to_string()];
                let x1 = s1.clone();
                v.push(Scenario {
                    name: "host-via-executor-while-session-starts",
                    quick_bound: 1,
                    thorough_bound: 2,
                    atomics: false,
                    body: Box::new(move |log, _notes| {
                        let x1 = x1.clone();
                        Box::new(move || {
                            let ex = FsmExecutor::new_without_io_processor();
                            let sess = start(&ex, &c13_doc(), &log);
                            let sid = sess.session_id;
                            let ex2 = ex.clone();
                            let h1 = spawn(move || {
                                for e in x1 {
                                    let _ = ex2.send_to_session(sid, Event::new_simple(&e));
                                }
                            });
                            let ex3 = ex.clone();
                            let log3 = log.clone();
                            let h2 = spawn(move || {
                                let idle_doc = format!(r##"<scxml {ns} name="late"><state id="z"/></scxml>"##, ns = NS);
                                let late = start(&ex3, &idle_doc, &log3);
                                cancel_and_join(late);
                            });
                            let _ = h1.join();
                            let _ = h2.join();
                            cancel_and_join(sess);
                        })
                    }),
                    oracle: c13_oracle(vec![s1]),
                });
                // (d) an internal event raised asynchronously while the session is blocked for an external one:
                // a delayed <send> whose delivery fails when the timer fires puts error.communication on the
                // internal queue from the timer thread; the host's two events are in flight around that moment
                let s1 = vec!["h1".to_string(), "h2".to_string()];
                let x1 = s1.clone();
                v.push(Scenario {
                    name: "async-internal-event-while-blocked",
                    quick_bound: 1,
                    thorough_bound: 2,
                    atomics: false,
                    body: Box::new(move |log, _notes| {
                        let x1 = x1.clone();
                        Box::new(move || {
                            let ex = FsmExecutor::new_without_io_processor();
                            let doc = format!(
                                r##"<scxml {ns} name="c13d"><state id="s"><onentry><send event="nobody" delay="10ms" target="#_scxml_99999"/></onentry>
 <transition event="r"><script>mark('r-done')</script></transition>
 <transition event="error"><script>mark('err', _event.name)</script></transition>
 <transition event="*"><script>mark('got', _event.name)</script><raise event="r"/></transition>
</state></scxml>"##,
                                ns = NS
                            );
                            let sess = start(&ex, &doc, &log);
                            let snd1 = sess.sender.clone();
                            let h1 = spawn(move || {
                                for e in x1 {
                                    let _ = snd1.send(Box::new(Event::new_simple(&e)));
                                }
                            });
                            let _ = h1.join();
                            cancel_and_join(sess);
                        })
                    }),
                    oracle: c13_oracle(vec![s1]),
                });
                // (e) the session's timer is a sender too: two delayed sends of the session to itself (due 10 ms and
                // 20 ms) while a host thread sends two events
                let s1 = vec!["h1".to_string(), "h2".to_string()];
                let s2 = vec!["d1".to_string(), "d2".to_string()];
                let x1 = s1.clone();
                v.push(Scenario {
                    name: "timer-and-host-senders",
                    quick_bound: 1,
                    thorough_bound: 2,
                    atomics: false,
                    body: Box::new(move |log, _notes| {
                        let x1 = x1.clone();
                        Box::new(move || {
                            let ex = FsmExecutor::new_without_io_processor();
                            let (tx, rx) = verif_sync::mpsc::channel::<String>();
                            let doc = format!(
                                r##"<scxml {ns} name="c13e"><state id="s"><onentry><send event="d1" delay="10ms"/><send event="d2" delay="20ms"/></onentry>
 <transition event="r"><script>mark('r-done')</script></transition>
 <transition event="*"><script>mark('got', _event.name); notify(_event.name)</script><raise event="r"/></transition>
</state></scxml>"##,
                                ns = NS
                            );
                            let sess = start_n(&ex, &doc, &log, &tx);
                            let snd1 = sess.sender.clone();
                            let h1 = spawn(move || {
                                for e in x1 {
                                    let _ = snd1.send(Box::new(Event::new_simple(&e)));
                                }
                            });
                            let _ = h1.join();
                            wait_for(&rx, &["d1", "d2"]);
                            cancel_and_join(sess);
                        })
                    }),
                    oracle: c13_oracle(vec![s1, s2]),
                });
            }
            "C17" => {
                // (c) host shuts the executor down while a session sends to a session id target
                v.push(Scenario {
                    name: "shutdown-vs-send-to-session",
                    quick_bound: 1,
                    thorough_bound: 2,
                    atomics: false,
                    body: Box::new(move |log, _notes| {
                        Box::new(move || {
                            let ex = FsmExecutor::new_without_io_processor();
                            let target = start(&ex, &c13_doc(), &log);
                            let tid = target.session_id;
                            let doc = format!(
                                r##"<scxml {ns} name="snd"><state id="w"><transition event="go" target="d"><send event="x" target="#_scxml_{tid}"/></transition></state><state id="d"/></scxml>"##,
                                ns = NS,
                                tid = tid
                            );
                            let sender = start(&ex, &doc, &log);
                            let mut ex2 = ex.clone();
                            let h = spawn(move || {
                                ex2.shutdown();
                            });
                            let _ = sender.sender.send(Box::new(Event::new_simple("go")));
                            let _ = h.join();
                            cancel_and_join(sender);
                            cancel_and_join(target);
                        })
                    }),
                    oracle: Box::new(|o: &Obs| {
                        basic_outcome(o)?;
                        Ok("finished".into())
                    }),
                });
                // (d) host starts a session while another one sends to a third
                v.push(Scenario {
                    name: "start-session-vs-send",
                    quick_bound: 1,
                    thorough_bound: 2,
                    atomics: false,
                    body: Box::new(move |log, _notes| {
                        Box::new(move || {
                            let ex = FsmExecutor::new_without_io_processor();
                            let target = start(&ex, &c13_doc(), &log);
                            let tid = target.session_id;
                            let doc = format!(
                                r##"<scxml {ns} name="snd"><state id="w"><transition event="go" target="d"><send event="x" target="#_scxml_{tid}"/></transition></state><state id="d"/></scxml>"##,
                                ns = NS,
                                tid = tid
                            );
                            let sender = start(&ex, &doc, &log);
                            let ex2 = ex.clone();
                            let log2 = log.clone();
                            let h = spawn(move || {
                                let late = start(&ex2, &c13_doc(), &log2);
                                cancel_and_join(late);
                            });
                            let _ = sender.sender.send(Box::new(Event::new_simple("go")));
                            let _ = h.join();
                            cancel_and_join(sender);
                            cancel_and_join(target);
                        })
                    }),
                    oracle: Box::new(|o: &Obs| {
                        basic_outcome(o)?;
                        Ok("finished".into())
                    }),
                });
            }
            _ => {}
        }
        if prop == "C16" {
            // names of external events processed by the first session, without the cancel event
            fn processed(o: &Obs) -> Vec<String> {
                let t = o.recs.first().map(|r| r.0).unwrap_or(0);
                xrecv_names(&o.recs, t).into_iter().filter(|n| n != fsm::EVENT_CANCEL_SESSION).collect()
            }
            fn mk(name: &'static str, qb: usize, tb: usize, doc: String, host_events: Vec<&'static str>, wait: Vec<&'static str>, oracle: Oracle) -> Scenario {
                Scenario {
                    name,
                    quick_bound: qb,
                    thorough_bound: tb,
                    atomics: false,
                    body: Box::new(move |log, _notes| {
                        let doc = doc.clone();
                        let host_events = host_events.clone();
                        let wait = wait.clone();
                        Box::new(move || {
                            let ex = FsmExecutor::new_without_io_processor();
                            let (tx, rx) = verif_sync::mpsc::channel::<String>();
                            let sess = start_n(&ex, &doc, &log, &tx);
                            for e in host_events {
                                let _ = sess.sender.send(Box::new(Event::new_simple(e)));
                            }
                            wait_for(&rx, &wait);
                            cancel_and_join(sess);
                        })
                    }),
                    oracle,
                }
            }
            /// <cancel> of the first delayed send (event c) in a transition that brackets the <cancel> with two marker
            /// sends (the 3rd and 4th timer item of the execution): the scheduler's step log then tells whether the
            /// <cancel> ran before the timer took c (3rd..4th item scheduled before the pop), after it, or around it
            fn cancel_oracle(what: &'static str) -> Oracle {
                Box::new(move |o: &Obs| {
                    basic_outcome(o)?;
                    let p = processed(o);
                    let nc = p.iter().filter(|n| *n == "c").count();
                    let nd = p.iter().filter(|n| *n == "d").count();
                    if nd != 1 {
                        return Err(("other-id-affected".into(), format!("event d (other id, never cancelled) processed {} times: {:?}", nd, p)));
                    }
                    if nc > 1 {
                        return Err(("delivered-twice".into(), format!("{:?}", p)));
                    }
                    let steps: Vec<&String> = o.result.steps.iter().map(|s| &s.op).collect();
                    let items: Vec<(usize, String)> = steps
                        .iter()
                        .enumerate()
                        .filter_map(|(i, s)| s.strip_prefix("timer-item ").map(|r| (i, r.split(' ').next().unwrap_or("").to_string())))
                        .collect();
                    if items.len() != 4 {
                        return Err(("MACHINERY-scenario".into(), format!("expected 4 timer items (c, d, marker, marker), the step log has {:?}", items)));
                    }
                    let pop_c = steps.iter().position(|s| **s == format!("timer-pop {}", items[0].1));
                    let (before, after) = (items[2].0, items[3].0);
                    let class = match pop_c {
                        Some(pp) if pp < before => "popped-before-cancel",
                        Some(pp) if pp > after => "cancel-before-pop",
                        None => "cancel-before-pop",
                        _ => "around",
                    };
                    if class == "cancel-before-pop" && nc != 0 {
                        return Err(("delivered-after-cancel".into(), format!("{} ran before the timer took the event, yet c was processed: {:?}", what, p)));
                    }
                    if class == "popped-before-cancel" && nc != 1 {
                        return Err(("lost".into(), format!("the timer took event c before {} ran and the session was alive, yet c was not processed: {:?}", what, p)));
                    }
                    Ok(format!("c={} {}", nc, class))
                })
            }
            let note = r##"<transition event="*"><script>mark('got', _event.name); notify(_event.name)</script></transition>"##;
            // order by due time, units and delayexpr
            v.push(mk(
                "due-time-order",
                2,
                3,
                format!(
                    r##"<scxml {ns} name="t1"><state id="a"><onentry><send event="late" delay="30ms"/><send event="early" delay="10ms"/><send event="mid" delayexpr="'0.02s'"/><send event="last" delay="1m"/></onentry>{note}</state></scxml>"##,
                    ns = NS,
                    note = note
                ),
                vec![],
                vec!["late", "early", "mid", "last"],
                Box::new(|o: &Obs| {
                    basic_outcome(o)?;
                    let p = processed(o);
                    // due times as the (virtual) timer saw them: the k-th scheduled item belongs to the k-th <send>
                    let names = ["late", "early", "mid", "last"];
                    let delays = [30i64, 10, 20, 60_000];
                    let mut items: Vec<(i64, usize, &str)> = vec![];
                    for st in &o.result.steps {
                        if let Some(rest) = st.op.strip_prefix("timer-item ") {
                            let due: i64 = rest.split("due=").nth(1).and_then(|x| x.parse().ok()).unwrap_or(-1);
                            let k = items.len();
                            if k < names.len() {
                                if due - st.now != delays[k] {
                                    return Err(("wrong-delay".into(), format!("<send> #{} ({}) was scheduled with a delay of {} ms instead of {} ms", k, names[k], due - st.now, delays[k])));
                                }
                                items.push((due, k, names[k]));
                            }
                        }
                    }
                    items.sort();
                    let exp: Vec<&str> = items.iter().map(|x| x.2).collect();
                    if p != exp {
                        return Err(("due-order".into(), format!("delayed events processed in order {:?}, their due order on the timer's clock was {:?}", p, items)));
                    }
                    Ok(p.join(">"))
                }),
            ));
            // cancel one of two; the other one is unaffected
            v.push(mk(
                "cancel-one-of-two",
                2,
                3,
                format!(
                    r##"<scxml {ns} name="t2"><state id="a"><onentry><send id="x" event="c" delay="10ms"/><send id="y" event="d" delay="20ms"/></onentry>
<transition event="stop"><send event="z0" delay="1ms"/><cancel sendid="x"/><send event="z1" delay="1ms"/><script>mark('cancelled')</script></transition>{note}</state></scxml>"##,
                    ns = NS,
                    note = note
                ),
                vec!["stop"],
                vec!["d", "z0", "z1"],
                cancel_oracle("<cancel sendid=\"x\"/>"),
            ));
            // arguments are evaluated when the send executes
            v.push(mk(
                "arguments-at-send-time",
                1,
                2,
                format!(
                    r##"<scxml {ns} name="t3"><datamodel><data id="v" expr="1"/><data id="arr" expr="[1,2]"/></datamodel><state id="a"><onentry>
<send event="p" delay="10ms"><param name="v" expr="v"/><param name="a" expr="arr[0]"/></send><assign location="v" expr="99"/></onentry>
<transition event="p"><script>mark('data', _event.data.v, _event.data.a); notify('p')</script></transition></state></scxml>"##,
                    ns = NS
                ),
                vec![],
                vec!["p"],
                Box::new(|o: &Obs| {
                    basic_outcome(o)?;
                    let m: Vec<Vec<String>> = o
                        .recs
                        .iter()
                        .filter_map(|(_, r)| match r {
                            Rec::Mark { args, .. } if args.first().map(|a| a == "data").unwrap_or(false) => Some(args.clone()),
                            _ => None,
                        })
                        .collect();
                    if m != vec![vec!["data".to_string(), "1".to_string(), "1".to_string()]] {
                        return Err(("arguments-late".into(), format!("delayed event carries {:?}, the values at send time were v=1 a=1", m)));
                    }
                    Ok("ok".into())
                }),
            ));
            // the same send id used twice: both are delivered, in due order
            v.push(mk(
                "same-id-twice",
                1,
                2,
                format!(
                    r##"<scxml {ns} name="t4"><state id="a"><onentry><send id="x" event="c1" delay="10ms"/><send id="x" event="c2" delay="20ms"/></onentry>{note}</state></scxml>"##,
                    ns = NS,
                    note = note
                ),
                vec![],
                vec!["c2"],
                Box::new(|o: &Obs| {
                    basic_outcome(o)?;
                    let p = processed(o);
                    if p != vec!["c1", "c2"] {
                        return Err(("same-id".into(), format!("two delayed sends with the same id, none cancelled: processed {:?}", p)));
                    }
                    Ok("ok".into())
                }),
            ));
            // the usual idiom: the id is generated (idlocation) and the cancel names it through sendidexpr; the second
            // generated id is unaffected
            v.push(mk(
                "cancel-by-sendidexpr",
                1,
                2,
                format!(
                    r##"<scxml {ns} name="t7"><datamodel><data id="sx" expr="''"/><data id="sy" expr="''"/></datamodel><state id="a"><onentry><send idlocation="sx" event="c" delay="10ms"/><send idlocation="sy" event="d" delay="20ms"/></onentry>
<transition event="stop"><send event="z0" delay="1ms"/><cancel sendidexpr="sx"/><send event="z1" delay="1ms"/><script>mark('cancelled', sx, sy)</script></transition>{note}</state></scxml>"##,
                    ns = NS,
                    note = note
                ),
                vec!["stop"],
                vec!["d", "z0", "z1"],
                cancel_oracle("<cancel sendidexpr=\"sx\"/> (id generated through idlocation)"),
            ));
            // an id that was cancelled after its event had been delivered is used again: the later send is not affected
            // by the stale <cancel>; and cancelling id "x" leaves id "x2" (same prefix) alone
            v.push(mk(
                "cancel-after-delivery-then-reuse",
                1,
                2,
                format!(
                    r##"<scxml {ns} name="t8"><state id="a"><onentry><send id="x" event="c1" delay="10ms"/><send id="x2" event="k" delay="40ms"/></onentry>
<transition event="c1"><script>mark('got', 'c1')</script><cancel sendid="x"/><send id="x" event="c2" delay="10ms"/></transition>{note}</state></scxml>"##,
                    ns = NS,
                    note = note
                ),
                vec![],
                vec!["c2", "k"],
                Box::new(|o: &Obs| {
                    basic_outcome(o).map_err(|(s, m)| (if s == "stuck" { "lost".to_string() } else { s }, m))?;
                    let p = processed(o);
                    // (k may overtake c2: how late the session handles c1 on the timer's clock is a scheduler choice)
                    let mut sorted = p.clone();
                    sorted.sort();
                    if sorted != vec!["c1", "c2", "k"] || p.iter().position(|n| n == "c1") > p.iter().position(|n| n == "c2") {
                        return Err(("stale-cancel".into(), format!("send x delivered, <cancel sendid=\"x\"/> (nothing pending), send x again, send x2 pending throughout: processed {:?}, expected c1, c2 and k once each", p)));
                    }
                    Ok("ok".into())
                }),
            ));
            // every expression-valued attribute of a delayed <send> is evaluated when the <send> executes: the data
            // they read is changed right afterwards
            v.push(mk(
                "expression-attributes-at-send-time",
                1,
                2,
                format!(
                    r##"<scxml {ns} name="t6"><datamodel><data id="tgt" expr="'#_scxml_' + _sessionid"/><data id="ev" expr="'q1'"/><data id="dl" expr="'10ms'"/>
<data id="ty" expr="'http://www.w3.org/TR/scxml/#SCXMLEventProcessor'"/><data id="c" expr="'body1'"/><data id="nv" expr="1"/></datamodel>
<state id="a"><onentry>
 <send eventexpr="ev" delayexpr="dl" targetexpr="tgt" typeexpr="ty" namelist="nv"/>
 <send event="q2" delay="20ms"><content expr="c"/></send>
 <assign location="tgt" expr="'#_scxml_99999'"/><assign location="ev" expr="'zz'"/><assign location="dl" expr="'50ms'"/>
 <assign location="ty" expr="'nonsense'"/><assign location="c" expr="'body2'"/><assign location="nv" expr="2"/>
</onentry>
<transition event="q1"><script>mark('data', 'q1', _event.data.nv); notify('q1')</script></transition>
<transition event="q2"><script>mark('data', 'q2', _event.data); notify('q2')</script></transition>
<transition event="*"><script>mark('other', _event.name); notify(_event.name)</script></transition></state></scxml>"##,
                    ns = NS
                ),
                vec![],
                vec!["q1", "q2"],
                Box::new(|o: &Obs| {
                    // an event that never arrives leaves the harness waiting: reported as stuck
                    basic_outcome(o).map_err(|(s, m)| (if s == "stuck" { "lost-or-misrouted".to_string() } else { s }, m))?;
                    let m: Vec<Vec<String>> = o
                        .recs
                        .iter()
                        .filter_map(|(_, r)| match r {
                            Rec::Mark { args, .. } if args.first().map(|a| a == "data" || a == "other").unwrap_or(false) => Some(args.clone()),
                            _ => None,
                        })
                        .collect();
                    let exp = vec![
                        vec!["data".to_string(), "q1".to_string(), "1".to_string()],
                        vec!["data".to_string(), "q2".to_string(), "body1".to_string()],
                    ];
                    if m != exp {
                        return Err(("arguments-late".into(), format!("delayed events carry {:?}; with the values at send time: {:?}", m, exp)));
                    }
                    let mut k = 0;
                    for st in &o.result.steps {
                        if let Some(rest) = st.op.strip_prefix("timer-item ") {
                            let due: i64 = rest.split("due=").nth(1).and_then(|x| x.parse().ok()).unwrap_or(-1);
                            let want = [10i64, 20][k.min(1)];
                            if due - st.now != want {
                                return Err(("wrong-delay".into(), format!("<send> #{} was scheduled with a delay of {} ms instead of {} ms (delayexpr value at send time)", k, due - st.now, want)));
                            }
                            k += 1;
                        }
                    }
                    Ok("ok".into())
                }),
            ));
            // <cancel> affects no other session: two sessions of the same document use the same send id, one cancels
            v.push(Scenario {
                name: "cancel-does-not-cross-sessions",
                quick_bound: 0,
                thorough_bound: 1,
                atomics: false,
                body: Box::new(move |log, notes| {
                    Box::new(move || {
                        let ex = FsmExecutor::new_without_io_processor();
                        let (tx, rx) = verif_sync::mpsc::channel::<String>();
                        let doc = format!(
                            r##"<scxml {ns} name="t7"><state id="a"><onentry><send id="x" event="c" delay="10ms"/></onentry>
<transition event="stop"><cancel sendid="x"/><script>mark('cancelled', _sessionid)</script></transition>
<transition event="c"><script>mark('got-c', _sessionid); notify('c' + _sessionid)</script></transition></state></scxml>"##,
                            ns = NS
                        );
                        let a = start_n(&ex, &doc, &log, &tx);
                        let b = start_n(&ex, &doc, &log, &tx);
                        notes.lock().unwrap().push(format!("a={} b={}", a.session_id, b.session_id));
                        let _ = a.sender.send(Box::new(Event::new_simple("stop")));
                        let want = format!("c{}", b.session_id);
                        wait_for(&rx, &[want.as_str()]);
                        cancel_and_join(a);
                        cancel_and_join(b);
                    })
                }),
                oracle: Box::new(|o: &Obs| {
                    basic_outcome(o).map_err(|(s, m)| (if s == "stuck" { "other-session-affected".to_string() } else { s }, m))?;
                    let note = o.notes.first().cloned().unwrap_or_default();
                    let b: String = note.split(' ').nth(1).unwrap_or("").trim_start_matches("b=").to_string();
                    let got: Vec<String> = o
                        .recs
                        .iter()
                        .filter_map(|(_, r)| match r {
                            Rec::Mark { args, .. } if args.first().map(|x| x == "got-c").unwrap_or(false) => Some(args[1].clone()),
                            _ => None,
                        })
                        .collect();
                    let nb = got.iter().filter(|x| **x == b).count();
                    if nb != 1 {
                        return Err(("other-session-affected".into(), format!("session {} never cancelled its send x, yet processed its event c {} times (sessions that processed c: {:?})", b, nb, got)));
                    }
                    if got.len() > 2 {
                        return Err(("delivered-twice".into(), format!("{:?}", got)));
                    }
                    Ok(format!("deliveries={}", got.len()))
                }),
            });
            // a delayed send to ANOTHER session is cancelled by its sender before the due time
            v.push(Scenario {
                name: "cancel-send-to-sibling",
                quick_bound: 1,
                thorough_bound: 2,
                atomics: false,
                body: Box::new(move |log, _notes| {
                    Box::new(move || {
                        let ex = FsmExecutor::new_without_io_processor();
                        let (tx, rx) = verif_sync::mpsc::channel::<String>();
                        let target = start_n(&ex, &format!(r##"<scxml {ns} name="tgt"><state id="a"><transition event="*"><script>mark('tgt-got', _event.name); notify('t-' + _event.name)</script></transition></state></scxml>"##, ns = NS), &log, &tx);
                        let tid = target.session_id;
                        let doc = format!(
                            r##"<scxml {ns} name="t8"><state id="a"><onentry><send id="x" event="c" delay="10ms" target="#_scxml_{tid}"/><send id="y" event="d" delay="20ms" target="#_scxml_{tid}"/></onentry>
<transition event="stop"><cancel sendid="x"/><script>mark('cancelled')</script></transition></state></scxml>"##,
                            ns = NS,
                            tid = tid
                        );
                        let sess = start_n(&ex, &doc, &log, &tx);
                        let _ = sess.sender.send(Box::new(Event::new_simple("stop")));
                        wait_for(&rx, &["t-d"]);
                        cancel_and_join(sess);
                        cancel_and_join(target);
                    })
                }),
                oracle: Box::new(|o: &Obs| {
                    basic_outcome(o).map_err(|(s, m)| (if s == "stuck" { "other-id-affected".to_string() } else { s }, m))?;
                    let got: Vec<String> = o
                        .recs
                        .iter()
                        .filter_map(|(_, r)| match r {
                            Rec::Mark { args, .. } if args.first().map(|x| x == "tgt-got").unwrap_or(false) => Some(args[1].clone()),
                            _ => None,
                        })
                        .collect();
                    let nc = got.iter().filter(|n| *n == "c").count();
                    let nd = got.iter().filter(|n| *n == "d").count();
                    if nd != 1 {
                        return Err(("other-id-affected".into(), format!("event d (id y, never cancelled) delivered {} times: {:?}", nd, got)));
                    }
                    let steps: Vec<&String> = o.result.steps.iter().map(|s| &s.op).collect();
                    let first_item_pop = steps.iter().position(|s| s.starts_with("timer-pop"));
                    let cancel = steps.iter().position(|s| s.starts_with("timer-cancel"));
                    let cancelled_first = match (cancel, first_item_pop) {
                        (Some(c), Some(pp)) => c < pp,
                        (Some(_), None) => true,
                        _ => false,
                    };
                    if cancelled_first && nc != 0 {
                        return Err(("delivered-after-cancel".into(), format!("<cancel> ran before the timer took the event, yet c was delivered: {:?}", got)));
                    }
                    if nc > 1 {
                        return Err(("delivered-twice".into(), format!("{:?}", got)));
                    }
                    if !cancelled_first && nc != 1 {
                        return Err(("lost".into(), format!("the timer took event c before <cancel> ran, yet c was not delivered: {:?}", got)));
                    }
                    if got.iter().position(|n| n == "c").unwrap_or(0) > got.iter().position(|n| n == "d").unwrap_or(usize::MAX) {
                        return Err(("due-order".into(), format!("{:?}", got)));
                    }
                    Ok(format!("c={} cancelled_first={}", nc, cancelled_first))
                }),
            });
            // the session is cancelled while its delayed send is due
            v.push(Scenario {
                name: "session-ends-with-pending-send",
                quick_bound: 2,
                thorough_bound: 3,
                atomics: false,
                body: Box::new(move |log, _notes| {
                    Box::new(move || {
                        let ex = FsmExecutor::new_without_io_processor();
                        let (tx, _rx) = verif_sync::mpsc::channel::<String>();
                        let target = start_n(&ex, &format!(r##"<scxml {ns} name="tgt"><state id="a"><transition event="*"><script>mark('got', _event.name)</script></transition></state></scxml>"##, ns = NS), &log, &tx);
                        let tid = target.session_id;
                        let doc = format!(
                            r##"<scxml {ns} name="t5"><state id="a"><onentry><send event="own" delay="10ms"/><send event="tosib" delay="10ms" target="#_scxml_{tid}"/></onentry>
<transition event="own"><script>mark('own')</script></transition></state></scxml>"##,
                            ns = NS,
                            tid = tid
                        );
                        let sess = start_n(&ex, &doc, &log, &tx);
                        cancel_and_join(sess);
                        cancel_and_join(target);
                    })
                }),
                oracle: Box::new(|o: &Obs| {
                    basic_outcome(o)?;
                    // each delayed event at most once, nothing processed by the sender after its cancel event
                    let mut tids: Vec<u32> = o.recs.iter().map(|r| r.0).collect();
                    tids.sort();
                    tids.dedup();
                    let mut class = vec![];
                    for t in tids {
                        let names = xrecv_names(&o.recs, t);
                        if let Some(pos) = names.iter().position(|n| n == fsm::EVENT_CANCEL_SESSION) {
                            if names.len() > pos + 1 {
                                return Err(("processed-after-termination".into(), format!("{:?}", names)));
                            }
                        }
                        for e in ["own", "tosib"] {
                            let c = names.iter().filter(|n| *n == e).count();
                            if c > 1 {
                                return Err(("delivered-twice".into(), format!("{:?}", names)));
                            }
                            if c == 1 {
                                class.push(e);
                            }
                        }
                    }
                    Ok(format!("{:?}", class))
                }),
            });
        }
        if prop == "C14" {
            fn child_doc(body: &str) -> String {
                format!(
                    r##"<scxml xmlns="http://www.w3.org/2005/07/scxml" version="1.0" datamodel="rfsm-expression" name="kid"><datamodel><data id="cv" expr="0"/></datamodel>{}</scxml>"##,
                    body
                )
            }
            fn parent_doc(invokes: &str, extra_b: &str) -> String {
                format!(
                    r##"<scxml {ns} name="par"><datamodel><data id="v" expr="5"/></datamodel>
<state id="a"><transition event="go" target="b"/><transition event="fin"><script>notify('fin')</script></transition></state>
<state id="b">{invokes}
 <onexit><script>mark('exit-b')</script></onexit>
 <transition event="c1 c2"><script>mark('p-child-event', _event.name, _event.invokeid); notify(_event.name)</script></transition>
 <transition event="done.invoke"><script>mark('p-done', _event.name, _event.invokeid); notify('done'); notify(_event.name)</script></transition>
 <transition event="leave" target="a"/>
 <transition event="fin"><script>notify('fin')</script></transition>
 <transition event="fw1"><script>mark('p-fw1'); notify('p-fw1')</script></transition>{extra_b}
</state><state id="c"><onentry><script>notify('in-c')</script></onentry><transition event="fin"><script>notify('fin')</script></transition></state></scxml>"##,
                    ns = NS,
                    invokes = invokes,
                    extra_b = extra_b
                )
            }
            /// per thread: names of states entered first (to tell parent and children apart)
            fn threads_entering(o: &Obs, state: &str) -> Vec<u32> {
                let mut v: Vec<u32> = o
                    .recs
                    .iter()
                    .filter_map(|(t, r)| match r {
                        Rec::Enter(n) if n == state => Some(*t),
                        _ => None,
                    })
                    .collect();
                v.sort();
                v.dedup();
                v
            }
            fn marks_of(o: &Obs, tag: &str) -> Vec<Vec<String>> {
                o.recs
                    .iter()
                    .filter_map(|(_, r)| match r {
                        Rec::Mark { args, .. } if args.first().map(|a| a == tag).unwrap_or(false) => Some(args.clone()),
                        _ => None,
                    })
                    .collect()
            }
            fn scen(name: &'static str, qb: usize, tb: usize, doc: String, script: Vec<(&'static str, &'static str)>, oracle: Oracle) -> Scenario {
                // script: (event to send, notification to wait for ("" = none))
                Scenario {
                    name,
                    quick_bound: qb,
                    thorough_bound: tb,
                    atomics: false,
                    body: Box::new(move |log, _notes| {
                        let doc = doc.clone();
                        let script = script.clone();
                        Box::new(move || {
                            let ex = FsmExecutor::new_without_io_processor();
                            let (tx, rx) = verif_sync::mpsc::channel::<String>();
                            let sess = start_n(&ex, &doc, &log, &tx);
                            for (ev, wait) in script {
                                if !ev.is_empty() {
                                    let _ = sess.sender.send(Box::new(Event::new_simple(ev)));
                                }
                                if !wait.is_empty() {
                                    // "x+y": both, in any order
                                    let all: Vec<&str> = wait.split('+').collect();
                                    wait_for(&rx, &all);
                                }
                            }
                            cancel_and_join(sess);
                        })
                    }),
                    oracle,
                }
            }
            let inv_content = |id: &str, attrs: &str, child: &str| -> String {
                format!(
                    r##"<invoke id="{id}"{attrs}><param name="cv" expr="v"/><param name="undecl" expr="1"/><content>{child}</content><finalize><script>mark('finalize', _event.name)</script></finalize></invoke>"##,
                    id = id,
                    attrs = attrs,
                    child = child
                )
            };
            // A: the child sends one event and finishes
            let child_a = child_doc(
                r##"<state id="k"><onentry><script>mark('k-data', cv, isDefined(undecl))</script><send event="c1" target="#_parent"/></onentry><transition target="kf"/></state><final id="kf"/>"##,
            );
            v.push(scen(
                "child-event-then-done",
                1,
                2,
                parent_doc(&inv_content("kid", "", &child_a), ""),
                vec![("go", "done")],
                Box::new(|o: &Obs| {
                    basic_outcome(o)?;
                    let kids = threads_entering(o, "k");
                    if kids.len() != 1 {
                        return Err(("start-count".into(), format!("the invoke was started {} times", kids.len())));
                    }
                    let kd = marks_of(o, "k-data");
                    if kd != vec![vec!["k-data".to_string(), "5".to_string(), "false".to_string()]] {
                        return Err(("param-passing".into(), format!("child data after start: {:?} (declared cv must be 5, undeclared 'undecl' must not exist)", kd)));
                    }
                    let ce = marks_of(o, "p-child-event");
                    if ce != vec![vec!["p-child-event".to_string(), "c1".to_string(), "kid".to_string()]] {
                        return Err(("child-event".into(), format!("parent processed child events {:?}", ce)));
                    }
                    let dn = marks_of(o, "p-done");
                    if dn.len() != 1 || dn[0][1] != "done.invoke.kid" {
                        return Err(("done-invoke".into(), format!("done.invoke processed: {:?}", dn)));
                    }
                    // order in the parent: finalize(c1) before the transition content for c1, c1 before done
                    let seq: Vec<String> = o
                        .recs
                        .iter()
                        .filter_map(|(_, r)| match r {
                            Rec::Mark { args, .. } if ["finalize", "p-child-event", "p-done"].contains(&args[0].as_str()) => Some(format!("{}:{}", args[0], args[1])),
                            _ => None,
                        })
                        .collect();
                    let exp = vec!["finalize:c1", "p-child-event:c1", "finalize:done.invoke.kid", "p-done:done.invoke.kid"];
                    let exp2 = vec!["finalize:c1", "p-child-event:c1", "p-done:done.invoke.kid"];
                    if seq != exp && seq != exp2 {
                        return Err(("finalize-order".into(), format!("parent content order {:?}", seq)));
                    }
                    Ok(format!("{:?}", seq.len()))
                }),
            ));
            // B: the parent leaves the invoking state while the child is sending and finishing
            let child_b = child_doc(
                r##"<state id="k"><onentry><send event="c1" target="#_parent"/><send event="c2" target="#_parent"/></onentry><transition target="kf"/></state><final id="kf"/>"##,
            );
            v.push(scen(
                "leave-while-child-sends",
                1,
                2,
                parent_doc(&inv_content("kid", "", &child_b), ""),
                vec![("go", ""), ("leave", ""), ("fin", "fin")],
                Box::new(|o: &Obs| {
                    basic_outcome(o)?;
                    let kids = threads_entering(o, "k");
                    if kids.len() != 1 {
                        return Err(("start-count".into(), format!("the invoke was started {} times", kids.len())));
                    }
                    // records of the parent thread after it exited b
                    let pt = o.recs.first().map(|r| r.0).unwrap_or(0);
                    let pos = o.recs.iter().position(|(t, r)| *t == pt && matches!(r, Rec::Exit(n) if n == "b"));
                    if let Some(p) = pos {
                        let late: Vec<String> = o.recs[p..]
                            .iter()
                            .filter_map(|(t, r)| match r {
                                Rec::XRecv(e) if *t == pt && (e.invokeid.as_deref() == Some("kid") || e.name.starts_with("done.invoke")) => Some(e.name.clone()),
                                _ => None,
                            })
                            .collect();
                        if !late.is_empty() {
                            let sig = if late.iter().all(|n| n.starts_with("done.invoke")) { "event-after-cancel:done.invoke" } else { "event-after-cancel" };
                            return Err((sig.into(), format!("after the parent exited the invoking state (child cancelled) it still processed events of that child: {:?}", late)));
                        }
                    }
                    let dn = marks_of(o, "p-done");
                    if dn.len() > 1 {
                        return Err(("done-invoke".into(), format!("done.invoke processed {} times", dn.len())));
                    }
                    let ce = marks_of(o, "p-child-event");
                    let names: Vec<&str> = ce.iter().map(|m| m[1].as_str()).collect();
                    if names != Vec::<&str>::new() && names != vec!["c1"] && names != vec!["c1", "c2"] {
                        return Err(("child-event".into(), format!("child events processed {:?}", names)));
                    }
                    Ok(format!("child-events={} done={}", names.len(), dn.len()))
                }),
            ));
            // C: the invoking state is entered and left within one macrostep: no invoke
            let child_c = child_doc(r##"<state id="k"><onentry><send event="c1" target="#_parent"/></onentry></state>"##);
            v.push(scen(
                "entered-and-exited-in-one-macrostep",
                0,
                1,
                parent_doc(&inv_content("kid", "", &child_c), r##"<transition target="c"/>"##),
                vec![("go", "in-c"), ("fin", "fin")],
                Box::new(|o: &Obs| {
                    basic_outcome(o)?;
                    let kids = threads_entering(o, "k");
                    if !kids.is_empty() {
                        return Err(("start-count".into(), format!("a state entered and exited within one macrostep started its invoke {} times", kids.len())));
                    }
                    Ok("no-invoke".into())
                }),
            ));
            // D: autoforward
            let child_d = child_doc(
                r##"<state id="k"><onentry><script>notify('sid' + _sessionid)</script></onentry><transition event="*"><script>mark('k-got', _event.name); notify('k-' + _event.name)</script></transition></state>"##,
            );
            let doc_d = parent_doc(&inv_content("kid", r##" autoforward="true""##, &child_d), "");
            v.push(Scenario {
                name: "autoforward",
                quick_bound: 0,
                thorough_bound: 1,
                atomics: false,
                body: Box::new(move |log, _notes| {
                    let doc = doc_d.clone();
                    Box::new(move || {
                        let ex = FsmExecutor::new_without_io_processor();
                        let (tx, rx) = verif_sync::mpsc::channel::<String>();
                        let sess = start_n(&ex, &doc, &log, &tx);
                        let _ = sess.sender.send(Box::new(Event::new_simple("go")));
                        // the child announces its session id
                        let mut kid_sid = 0u32;
                        while let Ok(m) = rx.recv() {
                            if let Some(n) = m.strip_prefix("sid") {
                                kid_sid = n.parse().unwrap_or(0);
                                break;
                            }
                        }
                        let _ = sess.sender.send(Box::new(Event::new_simple("fw1")));
                        wait_for(&rx, &["p-fw1"]);
                        // a probe sent directly to the child arrives after anything forwarded before
                        let _ = ex.send_to_session(kid_sid, Event::new_simple("probe"));
                        wait_for(&rx, &["k-probe"]);
                        cancel_and_join(sess);
                    })
                }),
                oracle: Box::new(|o: &Obs| {
                    basic_outcome(o)?;
                    let kg: Vec<String> = marks_of(o, "k-got").iter().map(|m| m[1].clone()).collect();
                    if kg != vec!["fw1".to_string(), "probe".to_string()] {
                        return Err(("autoforward".into(), format!("the parent processed external event fw1 while a child with autoforward=\"true\" was running; the child processed {:?} (expected fw1 before the probe)", kg)));
                    }
                    Ok("forwarded".into())
                }),
            });
            // E: the invoking state is entered twice
            let child_e = child_doc(r##"<state id="k"><onentry><send event="c1" target="#_parent"/></onentry></state>"##);
            v.push(scen(
                "reentered-invoking-state",
                1,
                2,
                parent_doc(&inv_content("kid", "", &child_e), ""),
                vec![("go", "c1"), ("leave", ""), ("go", "c1"), ("fin", "fin")],
                Box::new(|o: &Obs| {
                    basic_outcome(o)?;
                    let kids = threads_entering(o, "k");
                    if kids.len() != 2 {
                        return Err(("start-count".into(), format!("two entries of the invoking state started the invoke {} times", kids.len())));
                    }
                    Ok("two-children".into())
                }),
            ));
            // F: two invokes in one state
            let two = format!(
                "{}{}",
                inv_content("kid1", "", &child_doc(r##"<state id="k"><onentry><send event="c1" target="#_parent"/></onentry><transition target="kf"/></state><final id="kf"/>"##)),
                inv_content("kid2", "", &child_doc(r##"<state id="k"><onentry><send event="c2" target="#_parent"/></onentry><transition target="kf"/></state><final id="kf"/>"##))
            );
            v.push(scen(
                "two-invokes-in-one-state",
                1,
                2,
                parent_doc(&two, ""),
                vec![("go", "done"), ("", "done")],
                Box::new(|o: &Obs| {
                    basic_outcome(o)?;
                    let kids = threads_entering(o, "k");
                    if kids.len() != 2 {
                        return Err(("start-count".into(), format!("two invokes started {} children", kids.len())));
                    }
                    let mut ce: Vec<(String, String)> = marks_of(o, "p-child-event").iter().map(|m| (m[1].clone(), m[2].clone())).collect();
                    ce.sort();
                    if ce != vec![("c1".to_string(), "kid1".to_string()), ("c2".to_string(), "kid2".to_string())] {
                        return Err(("child-event".into(), format!("child events with invoke ids: {:?}", ce)));
                    }
                    let mut dn: Vec<String> = marks_of(o, "p-done").iter().map(|m| m[1].clone()).collect();
                    dn.sort();
                    if dn != vec!["done.invoke.kid1".to_string(), "done.invoke.kid2".to_string()] {
                        return Err(("done-invoke".into(), format!("{:?}", dn)));
                    }
                    Ok("ok".into())
                }),
            ));
            // G: an invoke whose <param> fails to evaluate next to a healthy one; the error event raised by the invoke
            // step is handled (targetless) while the invoking state stays active
            // (children end by themselves: rFSM cancels the children that are left at the parent's end in HashMap
            // order, which no scheduler owns)
            let good = child_doc(r##"<state id="k"><onentry><send event="c1" target="#_parent"/></onentry><transition target="kf"/></state><final id="kf"/>"##);
            let bad = child_doc(r##"<state id="kb"><onentry><send event="c2" target="#_parent"/></onentry><transition target="kf"/></state><final id="kf"/>"##);
            let two_g = format!(
                r##"<invoke id="kid"><param name="cv" expr="v"/><content>{good}</content></invoke><invoke id="kidbad"><param name="cv" expr="nosuchvar + 1"/><content>{bad}</content></invoke>"##,
                good = good,
                bad = bad
            );
            v.push(scen(
                "invoke-with-failing-param",
                1,
                2,
                parent_doc(&two_g, r##"<transition event="error"><script>mark('p-error', _event.name)</script></transition>"##),
                vec![("go", "c1+done.invoke.kid"), ("fin", "fin")],
                Box::new(|o: &Obs| {
                    basic_outcome(o)?;
                    let kids = threads_entering(o, "k");
                    if kids.len() != 1 {
                        return Err(("start-count".into(), format!("one entry of the invoking state started its (healthy) invoke {} times", kids.len())));
                    }
                    let bad = threads_entering(o, "kb");
                    if bad.len() > 1 {
                        return Err(("start-count".into(), format!("the invoke with a failing <param> was started {} times", bad.len())));
                    }
                    let ce: Vec<String> = marks_of(o, "p-child-event").iter().map(|m| m[1].clone()).collect();
                    if ce.iter().filter(|n| *n == "c1").count() != 1 {
                        return Err(("child-event".into(), format!("child events processed {:?}", ce)));
                    }
                    Ok(format!("bad-started={}", bad.len()))
                }),
            ));
            // H: two invoking states in parallel regions; one of them is exited: only ITS child is cancelled,
            // the other child keeps running and still answers
            let kid_h = |n: &str| {
                child_doc(&format!(
                    r##"<state id="k{n}"><onentry><send event="up{n}" target="#_parent"/></onentry><transition event="ping"><send event="pong{n}" target="#_parent"/></transition></state>"##,
                    n = n
                ))
            };
            let doc_h = format!(
                r##"<scxml {ns} name="parh"><parallel id="p">
<state id="r1" initial="i1"><state id="i1"><invoke id="kid1"><content>{k1}</content><finalize><script>mark('finalize', 'kid1', _event.name)</script></finalize></invoke><transition event="leave1" target="o1"/></state><state id="o1"/></state>
<state id="r2" initial="i2"><state id="i2"><invoke id="kid2"><content>{k2}</content><finalize><script>mark('finalize', 'kid2', _event.name)</script></finalize></invoke><transition event="leave2" target="o2"/></state><state id="o2"><onentry><script>notify('in-o2')</script></onentry></state></state>
<transition event="up1 up2 pong1 pong2"><script>mark('p-child-event', _event.name, _event.invokeid); notify(_event.name)</script></transition>
<transition event="ask2"><send event="ping" target="#_kid2"/></transition>
<transition event="error"><script>mark('p-error', _event.name); notify('error')</script></transition>
</parallel></scxml>"##,
                ns = NS,
                k1 = kid_h("1"),
                k2 = kid_h("2")
            );
            v.push(Scenario {
                name: "sibling-invoke-survives-exit-of-other-state",
                quick_bound: 0,
                thorough_bound: 1,
                atomics: false,
                body: Box::new(move |log, _notes| {
                    let doc = doc_h.clone();
                    Box::new(move || {
                        let ex = FsmExecutor::new_without_io_processor();
                        let (tx, rx) = verif_sync::mpsc::channel::<String>();
                        let sess = start_n(&ex, &doc, &log, &tx);
                        wait_for(&rx, &["up1", "up2"]);
                        let _ = sess.sender.send(Box::new(Event::new_simple("leave1")));
                        let _ = sess.sender.send(Box::new(Event::new_simple("ask2")));
                        // either the answer of child 2 or the error event of the failed send arrives
                        while let Ok(m) = rx.recv() {
                            if m == "pong2" || m == "error" {
                                break;
                            }
                        }
                        // no child is left when the parent ends (see scenario invoke-with-failing-param)
                        let _ = sess.sender.send(Box::new(Event::new_simple("leave2")));
                        wait_for(&rx, &["in-o2"]);
                        cancel_and_join(sess);
                    })
                }),
                oracle: Box::new(|o: &Obs| {
                    basic_outcome(o)?;
                    let ce: Vec<(String, String)> = marks_of(o, "p-child-event").iter().map(|m| (m[1].clone(), m[2].clone())).collect();
                    if !ce.contains(&("pong2".to_string(), "kid2".to_string())) {
                        return Err((
                            "sibling-cancelled".into(),
                            format!("after the parent exited state i1 (invoke kid1) the child of the still active state i2 did not answer any more: parent saw {:?}, errors {:?}", ce, marks_of(o, "p-error")),
                        ));
                    }
                    // finalize: only the block of the invoke the event came from
                    for f in marks_of(o, "finalize") {
                        let from = if f[2].ends_with('1') { "kid1" } else { "kid2" };
                        if f[1] != from {
                            return Err(("foreign-finalize".into(), format!("event {} of {} ran the <finalize> of {}", f[2], from, f[1])));
                        }
                    }
                    Ok("sibling-alive".into())
                }),
            });
            // I: two invokes in ONE state with their own <finalize>: an event runs the finalize of its own invoke only
            let two_i = format!(
                r##"<invoke id="kid1"><content>{a}</content><finalize><script>mark('finalize', 'kid1', _event.name)</script></finalize></invoke><invoke id="kid2"><content>{b}</content><finalize><script>mark('finalize', 'kid2', _event.name)</script></finalize></invoke>"##,
                a = child_doc(r##"<state id="k"><onentry><send event="c1" target="#_parent"/></onentry><transition target="kf"/></state><final id="kf"/>"##),
                b = child_doc(r##"<state id="k"><onentry><send event="c2" target="#_parent"/></onentry><transition target="kf"/></state><final id="kf"/>"##)
            );
            v.push(scen(
                "finalize-of-own-invoke-only",
                0,
                1,
                parent_doc(&two_i, ""),
                vec![("go", "c1+c2+done+done"), ("fin", "fin")],
                Box::new(|o: &Obs| {
                    basic_outcome(o)?;
                    let mut f: Vec<(String, String)> = marks_of(o, "finalize").iter().map(|m| (m[1].clone(), m[2].clone())).collect();
                    f.sort();
                    f.retain(|x| !x.1.starts_with("done.invoke"));
                    if f != vec![("kid1".to_string(), "c1".to_string()), ("kid2".to_string(), "c2".to_string())] {
                        return Err(("foreign-finalize".into(), format!("finalize blocks executed (invoke, event): {:?}; expected kid1 for c1 and kid2 for c2 only", f)));
                    }
                    Ok("ok".into())
                }),
            ));
            // J: the invoking state is left by an event that is already queued when the invoke starts (sent from the
            // state's own onentry): the cancellation must reach the child however early it comes
            let kid_j = child_doc(r##"<state id="k"><onentry><script>notify('sid' + _sessionid)</script><send event="c1" target="#_parent"/></onentry><transition event="*"><script>mark('k-got', _event.name)</script></transition></state>"##);
            let doc_j = format!(
                r##"<scxml {ns} name="parj"><state id="a"><transition event="go" target="b"/></state>
<state id="b"><onentry><send event="leave"/></onentry><invoke id="kid"><content>{kid}</content></invoke>
 <transition event="leave" target="c"/><transition event="c1"><script>mark('p-child-event', _event.name, _event.invokeid)</script></transition></state>
<state id="c"><onentry><script>notify('in-c')</script></onentry><transition event="fin"><script>notify('fin')</script></transition>
 <transition event="c1 done.invoke"><script>mark('p-late', _event.name)</script></transition></state></scxml>"##,
                ns = NS,
                kid = kid_j
            );
            v.push(Scenario {
                name: "exit-right-after-invoke",
                quick_bound: 1,
                thorough_bound: 2,
                atomics: false,
                body: Box::new(move |log, _notes| {
                    let doc = doc_j.clone();
                    Box::new(move || {
                        let ex = FsmExecutor::new_without_io_processor();
                        let (tx, rx) = verif_sync::mpsc::channel::<String>();
                        let sess = start_n(&ex, &doc, &log, &tx);
                        let _ = sess.sender.send(Box::new(Event::new_simple("go")));
                        // the parent has left b (child cancelled) and the child has announced its session id
                        let mut kid_sid = 0u32;
                        let mut in_c = false;
                        while kid_sid == 0 || !in_c {
                            match rx.recv() {
                                Ok(m) => {
                                    if let Some(n) = m.strip_prefix("sid") {
                                        kid_sid = n.parse().unwrap_or(0);
                                    } else if m == "in-c" {
                                        in_c = true;
                                    }
                                }
                                Err(_) => break,
                            }
                        }
                        // queued behind the cancel event of the child: a cancelled child never processes it
                        let _ = ex.send_to_session(kid_sid, Event::new_simple("probe"));
                        let _ = sess.sender.send(Box::new(Event::new_simple("fin")));
                        wait_for(&rx, &["fin"]);
                        cancel_and_join(sess);
                    })
                }),
                oracle: Box::new(|o: &Obs| {
                    basic_outcome(o)?;
                    let kg: Vec<String> = marks_of(o, "k-got").iter().map(|m| m[1].clone()).collect();
                    if kg.iter().any(|n| n == "probe") {
                        return Err(("child-not-cancelled".into(), format!("the invoking state was exited, yet its child still processed an event sent afterwards: child processed {:?}", kg)));
                    }
                    let late = marks_of(o, "p-late");
                    if !late.is_empty() {
                        return Err(("event-after-cancel".into(), format!("events of the cancelled child processed after the exit: {:?}", late)));
                    }
                    Ok(format!("kids={}", threads_entering(o, "k").len()))
                }),
            });
            // K: an <invoke> WITHOUT id in a state that is left and re-entered: the cancelled first child says "bye"
            // from its onexit while it is being cancelled; the parent must ignore that event (and it must not be
            // taken for an event of the second child)
            let kid_k = child_doc(
                r##"<state id="k"><onentry><send event="up" target="#_parent"/></onentry><onexit><send event="bye" target="#_parent"/><script>notify('kid-exit')</script></onexit></state>"##,
            );
            let doc_k = format!(
                r##"<scxml {ns} name="park"><datamodel><data id="n" expr="0"/></datamodel><state id="a"><transition event="go" target="b"/></state>
<state id="b"><invoke><content>{kid}</content></invoke>
 <transition event="up" cond="n == 0" target="a2"><assign location="n" expr="1"/></transition>
 <transition event="up"><script>mark('p-child-event', 'up2', _event.invokeid); notify('up2')</script></transition>
 <transition event="bye"><script>mark('p-late', _event.name, _event.invokeid); notify('bye')</script></transition>
 <transition event="fin"><script>notify('fin')</script></transition></state>
<state id="a2"><transition target="b"/></state></scxml>"##,
                ns = NS,
                kid = kid_k
            );
            v.push(scen(
                "reinvoke-without-id",
                1,
                2,
                doc_k,
                vec![("go", "up2+kid-exit"), ("fin", "fin")],
                Box::new(|o: &Obs| {
                    basic_outcome(o)?;
                    let kids = threads_entering(o, "k");
                    if kids.len() != 2 {
                        return Err(("start-count".into(), format!("two entries of the invoking state started the invoke {} times", kids.len())));
                    }
                    let late = marks_of(o, "p-late");
                    if !late.is_empty() {
                        return Err(("event-after-cancel".into(), format!("the parent processed an event of the child it had cancelled: {:?}", late)));
                    }
                    Ok("ok".into())
                }),
            ));
            // O: the <onexit> content of the invoking state still talks to the child: the invocation is cancelled after
            // the onexit handlers have run, so an event sent to '#_kid' from there is queued before the cancellation
            let kid_o = child_doc(r##"<state id="k"><onentry><send event="up" target="#_parent"/></onentry><transition event="bye"><script>mark('k-got', _event.name)</script></transition></state>"##);
            let doc_o = format!(
                r##"<scxml {ns} name="paro"><state id="a"><transition event="go" target="b"/><transition event="fin"><script>notify('fin')</script></transition>
 <transition event="error"><script>mark('p-error', _event.name)</script></transition></state>
<state id="b"><invoke id="kid"><content>{kid}</content></invoke>
 <onexit><send event="bye" target="#_kid"/><script>mark('exit-b')</script></onexit>
 <transition event="up"><script>notify('up')</script></transition>
 <transition event="leave" target="a"/>
 <transition event="error"><script>mark('p-error', _event.name)</script></transition></state></scxml>"##,
                ns = NS,
                kid = kid_o
            );
            v.push(scen(
                "onexit-sends-to-child",
                1,
                2,
                doc_o,
                vec![("go", "up"), ("leave", ""), ("fin", "fin")],
                Box::new(|o: &Obs| {
                    basic_outcome(o)?;
                    let got: Vec<String> = marks_of(o, "k-got").iter().map(|m| m[1].clone()).collect();
                    let errs: Vec<String> = marks_of(o, "p-error").iter().map(|m| m[1].clone()).collect();
                    if got != vec!["bye".to_string()] || !errs.is_empty() {
                        return Err((
                            "cancelled-before-onexit".into(),
                            format!("<onexit> of the invoking state sends 'bye' to '#_kid': the child processed {:?}, the parent got error events {:?} (the invocation must still exist while the onexit content runs)", got, errs),
                        ));
                    }
                    Ok("ok".into())
                }),
            ));
            // P: the child answers the parent through the address the parent's event carried (_event.origin, i.e. the
            // parent's session id, not '#_parent'): the answer is still an event of that invocation - invokeid set,
            // <finalize> run - and a straggler sent the same way is ignored once the invocation was cancelled
            let kid_p = child_doc(
                r##"<state id="k"><onentry><send event="up" target="#_parent"/></onentry>
<transition event="ping"><send event="pong" targetexpr="_event.origin" typeexpr="_event.origintype"/></transition>
<transition event="last"><send event="straggler" targetexpr="_event.origin" typeexpr="_event.origintype"/></transition></state>"##,
            );
            let doc_p = format!(
                r##"<scxml {ns} name="parp"><state id="a"><transition event="go" target="b"/><transition event="fin"><script>notify('fin')</script></transition>
 <transition event="straggler pong"><script>mark('p-late', _event.name, _event.invokeid)</script></transition></state>
<state id="b"><invoke id="kid"><content>{kid}</content><finalize><script>mark('finalize', _event.name)</script></finalize></invoke>
 <transition event="up"><script>notify('up')</script></transition>
 <transition event="ask"><send event="ping" target="#_kid"/></transition>
 <transition event="pong"><script>mark('p-child-event', _event.name, _event.invokeid); notify('pong')</script></transition>
 <transition event="askleave" target="a"><send event="last" target="#_kid"/></transition>
 <transition event="error"><script>mark('p-error', _event.name)</script></transition></state></scxml>"##,
                ns = NS,
                kid = kid_p
            );
            v.push(scen(
                "reply-through-origin",
                1,
                2,
                doc_p,
                vec![("go", "up"), ("ask", "pong"), ("askleave", ""), ("fin", "fin")],
                Box::new(|o: &Obs| {
                    basic_outcome(o)?;
                    let ce = marks_of(o, "p-child-event");
                    if ce != vec![vec!["p-child-event".to_string(), "pong".to_string(), "kid".to_string()]] {
                        return Err(("child-event".into(), format!("the child answered through _event.origin; the parent processed {:?} (expected pong with invokeid kid)", ce)));
                    }
                    let fin: Vec<String> = marks_of(o, "finalize").iter().map(|m| m[1].clone()).collect();
                    if !fin.contains(&"pong".to_string()) {
                        return Err(("finalize-order".into(), format!("<finalize> of the invocation did not run for the child's event pong (ran for {:?})", fin)));
                    }
                    let late = marks_of(o, "p-late");
                    if !late.is_empty() {
                        return Err(("event-after-cancel".into(), format!("after the parent exited the invoking state it still processed events of that child: {:?}", late)));
                    }
                    Ok("ok".into())
                }),
            ));
            // L: nested invokes: the child invokes a grandchild and relays its event; when the parent leaves the
            // invoking state the child is cancelled and, by exiting its own invoking state, cancels the grandchild:
            // a probe queued behind that cancellation is never processed and no session thread is left behind
            let grand_l = r##"<scxml xmlns="http://www.w3.org/2005/07/scxml" version="1.0" datamodel="rfsm-expression" name="grand"><state id="g"><onentry><script>notify('gsid' + _sessionid)</script><send event="g1" target="#_parent"/></onentry><transition event="*"><script>mark('g-got', _event.name)</script></transition></state></scxml>"##;
            let kid_l = format!(
                r##"<scxml xmlns="http://www.w3.org/2005/07/scxml" version="1.0" datamodel="rfsm-expression" name="kid"><state id="k"><invoke id="gk"><content>{grand}</content><finalize><script>mark('k-finalize', _event.name)</script></finalize></invoke>
<onexit><script>notify('kid-exit')</script></onexit>
<transition event="g1"><script>mark('k-child-event', _event.name, _event.invokeid)</script><send event="c1" target="#_parent"/></transition>
<transition event="*"><script>mark('k-other', _event.name)</script></transition></state></scxml>"##,
                grand = grand_l
            );
            let doc_l = parent_doc(&inv_content("kid", "", &kid_l), "");
            v.push(Scenario {
                name: "nested-invoke",
                quick_bound: 1,
                thorough_bound: 2,
                atomics: false,
                body: Box::new(move |log, _notes| {
                    let doc = doc_l.clone();
                    Box::new(move || {
                        let ex = FsmExecutor::new_without_io_processor();
                        let (tx, rx) = verif_sync::mpsc::channel::<String>();
                        let sess = start_n(&ex, &doc, &log, &tx);
                        let _ = sess.sender.send(Box::new(Event::new_simple("go")));
                        let mut g_sid = 0u32;
                        let mut c1 = false;
                        while g_sid == 0 || !c1 {
                            match rx.recv() {
                                Ok(m) => {
                                    if let Some(n) = m.strip_prefix("gsid") {
                                        g_sid = n.parse().unwrap_or(0);
                                    } else if m == "c1" {
                                        c1 = true;
                                    }
                                }
                                Err(_) => break,
                            }
                        }
                        let _ = sess.sender.send(Box::new(Event::new_simple("leave")));
                        // the child runs its onexit content after it has sent the cancellation to its own children
                        wait_for(&rx, &["kid-exit"]);
                        let _ = ex.send_to_session(g_sid, Event::new_simple("probe"));
                        let _ = sess.sender.send(Box::new(Event::new_simple("fin")));
                        wait_for(&rx, &["fin"]);
                        cancel_and_join(sess);
                    })
                }),
                oracle: Box::new(|o: &Obs| {
                    basic_outcome(o)?;
                    if threads_entering(o, "k").len() != 1 || threads_entering(o, "g").len() != 1 {
                        return Err(("start-count".into(), format!("child started {} times, grandchild {} times", threads_entering(o, "k").len(), threads_entering(o, "g").len())));
                    }
                    let kc = marks_of(o, "k-child-event");
                    if kc != vec![vec!["k-child-event".to_string(), "g1".to_string(), "gk".to_string()]] {
                        return Err(("child-event".into(), format!("the child processed events of the grandchild: {:?} (expected g1 with invokeid gk)", kc)));
                    }
                    let kf: Vec<String> = marks_of(o, "k-finalize").iter().map(|m| m[1].clone()).collect();
                    if kf.first().map(|s| s.as_str()) != Some("g1") {
                        return Err(("finalize-order".into(), format!("the child's <finalize> ran for {:?}", kf)));
                    }
                    let pc = marks_of(o, "p-child-event");
                    if pc != vec![vec!["p-child-event".to_string(), "c1".to_string(), "kid".to_string()]] {
                        return Err(("child-event".into(), format!("the parent processed child events {:?}", pc)));
                    }
                    let gg: Vec<String> = marks_of(o, "g-got").iter().map(|m| m[1].clone()).collect();
                    if gg.iter().any(|n| n == "probe") {
                        return Err(("child-not-cancelled".into(), format!("the child was cancelled and exited its invoking state, yet the grandchild still processed an event sent afterwards: {:?}", gg)));
                    }
                    if !marks_of(o, "p-done").is_empty() {
                        return Err(("done-invoke".into(), format!("done.invoke of a cancelled child processed: {:?}", marks_of(o, "p-done"))));
                    }
                    Ok("ok".into())
                }),
            });
            // M: the child document comes from a file: src (XML) and srcexpr (binary .rfsm image of the same document)
            {
                // the reader resolves a document location relative to the working directory (a leading '/' is dropped)
                let dir = "scratch/C14src".to_string();
                let _ = std::fs::create_dir_all(&dir);
                let put = |name: &str, bytes: &[u8]| -> String {
                    let p = format!("{}/{}", dir, name);
                    let tmp = format!("{}.{}.tmp", p, std::process::id());
                    let _ = std::fs::write(&tmp, bytes);
                    let _ = std::fs::rename(&tmp, &p);
                    p
                };
                let xml_path = put("kid_a.scxml", child_a.as_bytes());
                let bin_path = {
                    use rufsm::serializer::default_protocol_writer::DefaultProtocolWriter;
                    use rufsm::serializer::fsm_writer::FsmWriter;
                    let fsm = parse(&child_a).expect("child document must parse");
                    let mut w: FsmWriter<Vec<u8>> = FsmWriter::new(Box::new(DefaultProtocolWriter::new(Vec::new())));
                    w.write(&fsm);
                    w.close();
                    let buf = w.get_writer().clone();
                    put("kid_a.rfsm", &buf)
                };
                let oracle_m = || -> Oracle {
                    Box::new(|o: &Obs| {
                        basic_outcome(o)?;
                        let kids = threads_entering(o, "k");
                        if kids.len() != 1 {
                            return Err(("start-count".into(), format!("the invoke (child document from a file) was started {} times", kids.len())));
                        }
                        let kd = marks_of(o, "k-data");
                        if kd != vec![vec!["k-data".to_string(), "5".to_string(), "false".to_string()]] {
                            return Err(("param-passing".into(), format!("child data after start: {:?} (declared cv must be 5, undeclared 'undecl' must not exist)", kd)));
                        }
                        let ce = marks_of(o, "p-child-event");
                        if ce != vec![vec!["p-child-event".to_string(), "c1".to_string(), "kid".to_string()]] {
                            return Err(("child-event".into(), format!("parent processed child events {:?}", ce)));
                        }
                        let dn = marks_of(o, "p-done");
                        if dn.len() != 1 || dn[0][1] != "done.invoke.kid" {
                            return Err(("done-invoke".into(), format!("done.invoke processed: {:?}", dn)));
                        }
                        let seq: Vec<String> = o
                            .recs
                            .iter()
                            .filter_map(|(_, r)| match r {
                                Rec::Mark { args, .. } if ["p-child-event", "p-done"].contains(&args[0].as_str()) => Some(args[1].clone()),
                                _ => None,
                            })
                            .collect();
                        if seq != vec!["c1".to_string(), "done.invoke.kid".to_string()] {
                            return Err(("done-invoke".into(), format!("done.invoke must come after the child's other events: {:?}", seq)));
                        }
                        Ok("ok".into())
                    })
                };
                let inv_src = format!(
                    r##"<invoke id="kid" src="{}"><param name="cv" expr="v"/><param name="undecl" expr="1"/><finalize><script>mark('finalize', _event.name)</script></finalize></invoke>"##,
                    xml_path
                );
                v.push(scen("invoke-src-file", 0, 1, parent_doc(&inv_src, ""), vec![("go", "done"), ("fin", "fin")], oracle_m()));
                let (stem, _) = bin_path.rsplit_once('.').unwrap();
                let inv_srcexpr = format!(
                    r##"<invoke id="kid" srcexpr="'{}' + '.rfsm'"><param name="cv" expr="v"/><param name="undecl" expr="1"/></invoke>"##,
                    stem
                );
                v.push(scen("invoke-srcexpr-binary", 0, 1, parent_doc(&inv_srcexpr, ""), vec![("go", "done"), ("fin", "fin")], oracle_m()));
            }
            // N: namelist and idlocation: only declared child data are set; the generated id (stateid.platformid) is
            // stored before the child runs, is the invokeid of the child's events and names the done event
            let kid_n = child_doc(
                r##"<state id="k"><onentry><script>mark('k-data', cv, isDefined(w))</script><send event="c1" target="#_parent"/></onentry><transition target="kf"/></state><final id="kf"/>"##,
            );
            let doc_n = format!(
                r##"<scxml {ns} name="parn"><datamodel><data id="cv" expr="11"/><data id="w" expr="3"/><data id="iid" expr="''"/></datamodel>
<state id="a"><transition event="go" target="b"/></state>
<state id="b"><invoke idlocation="iid" namelist="cv w"><content>{kid}</content></invoke>
 <transition event="c1"><script>mark('p-child-event', _event.name, _event.invokeid, iid)</script></transition>
 <transition event="done.invoke"><script>mark('p-done', _event.name, _event.invokeid, iid); notify('done')</script></transition>
 <transition event="fin"><script>notify('fin')</script></transition></state></scxml>"##,
                ns = NS,
                kid = kid_n
            );
            v.push(scen(
                "namelist-and-idlocation",
                0,
                1,
                doc_n,
                vec![("go", "done"), ("fin", "fin")],
                Box::new(|o: &Obs| {
                    basic_outcome(o)?;
                    let kd = marks_of(o, "k-data");
                    if kd != vec![vec!["k-data".to_string(), "11".to_string(), "false".to_string()]] {
                        return Err(("param-passing".into(), format!("child data after start with namelist=\"cv w\": {:?} (declared cv must be 11, undeclared w must not exist)", kd)));
                    }
                    let ce = marks_of(o, "p-child-event");
                    let dn = marks_of(o, "p-done");
                    if ce.len() != 1 || dn.len() != 1 {
                        return Err(("child-event".into(), format!("child events {:?}, done events {:?}", ce, dn)));
                    }
                    let iid = ce[0][3].clone();
                    let tail = iid.strip_prefix("b.").unwrap_or("");
                    if tail.is_empty() || !tail.chars().all(|c| c.is_ascii_digit()) {
                        return Err(("generated-id".into(), format!("idlocation holds {:?} (expected b.<platformid>)", iid)));
                    }
                    if ce[0][2] != iid || dn[0][2] != iid || dn[0][3] != iid || dn[0][1] != format!("done.invoke.{}", iid) {
                        return Err(("generated-id".into(), format!("invoke id stored by idlocation {:?}; child event {:?}; done event {:?}", iid, ce[0], dn[0])));
                    }
                    Ok("ok".into())
                }),
            ));
        }
        if prop == "C15" {
            // routing: a parent with an invoked child and a sibling; every target form once, literal and targetexpr,
            // payload forms, replies through _event.origin / origintype
            let obs = r##"<transition event="*"><script>mark('rx', _sessionid, _event.name, _event.sendid, _event.origintype)</script></transition>"##;
            let child = format!(
                r##"<scxml xmlns="http://www.w3.org/2005/07/scxml" version="1.0" datamodel="rfsm-expression" name="kid"><state id="k">
<onentry><send event="k2p" target="#_parent"><param name="p" expr="7"/></send></onentry>
<transition event="e_kid"><script>mark('rx', _sessionid, _event.name, _event.sendid, _event.origintype); mark('data', _event.name, _event.data.p)</script><send event="reply.kid" targetexpr="_event.origin" typeexpr="_event.origintype"/></transition>
<transition event="e_kid_x"><script>mark('rx', _sessionid, _event.name, _event.sendid, _event.origintype)</script><send event="reply.kid" targetexpr="_event.origin" typeexpr="_event.origintype"/></transition>
{obs}</state></scxml>"##,
                obs = obs
            );
            let sib_doc = format!(
                r##"<scxml {ns} name="sib"><state id="s">
<transition event="e_sib_x"><script>mark('rx', _sessionid, _event.name, _event.sendid, _event.origintype); mark('data', _event.name, 'content', _event.data)</script><send event="reply.sib" targetexpr="_event.origin" typeexpr="_event.origintype"/></transition>
<transition event="e_sib"><script>mark('rx', _sessionid, _event.name, _event.sendid, _event.origintype); mark('data', _event.name, _event.data.q, _event.data.w)</script><send event="reply.sib" targetexpr="_event.origin" typeexpr="_event.origintype"/></transition>
{obs}</state></scxml>"##,
                ns = NS,
                obs = obs
            );
            let child = child.clone();
            let obs: String = obs.to_string();
            let par_doc = move |sib: u32| -> String {
                format!(
                    r##"<scxml {ns} name="par"><datamodel><data id="v" expr="3"/><data id="w" expr="'ww'"/></datamodel><state id="a">
<invoke id="kid"><content>{child}</content></invoke>
<transition event="go">
 <send event="e_self" id="s1"/>
 <send event="e_int" target="#_internal"/>
 <send event="e_sib" target="#_scxml_{sib}" id="s2" namelist="w"><param name="q" expr="v + 1"/></send>
 <send event="e_sib_x" targetexpr="'#_scxml_' + {sib}"><content expr="'body'"/></send>
 <send event="e_kid" target="#_kid"><param name="p" expr="v"/></send>
 <send event="e_kid_x" targetexpr="'#_' + 'kid'" idlocation="v"/>
</transition>
<transition event="e_int"><script>mark('internal', _event.name, _event.type)</script></transition>
<transition event="reply k2p"><script>mark('rx', _sessionid, _event.name, _event.sendid, _event.origintype); notify(_event.name)</script></transition>
<transition event="e_self"><script>mark('rx', _sessionid, _event.name, _event.sendid, _event.origintype); notify(_event.name)</script></transition>
{obs}</state></scxml>"##,
                    ns = NS,
                    child = child,
                    sib = sib,
                    obs = obs
                )
            };
            // a DELAYED send is routed to the session its target expression named when the <send> executed: the
            // variable is re-assigned to another live session right afterwards
            v.push(Scenario {
                name: "delayed-send-routing",
                quick_bound: 0,
                thorough_bound: 1,
                atomics: false,
                body: Box::new(move |log, notes| {
                    Box::new(move || {
                        let ex = FsmExecutor::new_without_io_processor();
                        let (tx, rx) = verif_sync::mpsc::channel::<String>();
                        let rcv = format!(
                            r##"<scxml {ns} name="rcv"><state id="s"><transition event="*"><script>mark('rx', _sessionid, _event.name, _event.sendid, _event.origintype); notify('got' + _sessionid)</script></transition></state></scxml>"##,
                            ns = NS
                        );
                        let a = start_n(&ex, &rcv, &log, &tx);
                        let b = start_n(&ex, &rcv, &log, &tx);
                        let snd = format!(
                            r##"<scxml {ns} name="snd"><datamodel><data id="tv" expr="'#_scxml_{a}'"/></datamodel><state id="s"><onentry>
<send event="hello" id="h1" delay="10ms" targetexpr="tv"/><assign location="tv" expr="'#_scxml_{b}'"/></onentry></state></scxml>"##,
                            ns = NS,
                            a = a.session_id,
                            b = b.session_id
                        );
                        let s = start_n(&ex, &snd, &log, &tx);
                        notes.lock().unwrap().push(format!("a={} b={}", a.session_id, b.session_id));
                        // whoever gets it reports
                        let _ = rx.recv();
                        cancel_and_join(s);
                        cancel_and_join(a);
                        cancel_and_join(b);
                    })
                }),
                oracle: Box::new(|o: &Obs| {
                    basic_outcome(o)?;
                    let note = o.notes.first().cloned().unwrap_or_default();
                    let a: String = note.split(' ').next().unwrap_or("").trim_start_matches("a=").to_string();
                    let got: Vec<(String, String, String)> = o
                        .recs
                        .iter()
                        .filter_map(|(_, r)| match r {
                            Rec::Mark { args, .. } if args.first().map(|x| x == "rx").unwrap_or(false) && args[2] != fsm::EVENT_CANCEL_SESSION => Some((args[1].clone(), args[2].clone(), args[3].clone())),
                            _ => None,
                        })
                        .collect();
                    if got != vec![(a.clone(), "hello".to_string(), "h1".to_string())] {
                        return Err(("routing-delayed".into(), format!("the delayed <send> named session {} when it executed; (session, event, sendid) received: {:?}", a, got)));
                    }
                    Ok("ok".into())
                }),
            });
            // an INVOKED session addresses a session that is not its parent (#_scxml_<id> of a sibling): the event
            // carries the sender's invoke id, the receiver must still get it
            v.push(Scenario {
                name: "invoked-child-sends-to-sibling",
                quick_bound: 0,
                thorough_bound: 1,
                atomics: false,
                body: Box::new(move |log, notes| {
                    Box::new(move || {
                        let ex = FsmExecutor::new_without_io_processor();
                        let (tx, rx) = verif_sync::mpsc::channel::<String>();
                        let rcv = format!(
                            r##"<scxml {ns} name="rcv"><state id="s"><transition event="*"><script>mark('rx', _sessionid, _event.name, _event.sendid, _event.origintype); notify('got-' + _event.name)</script></transition></state></scxml>"##,
                            ns = NS
                        );
                        let sib = start_n(&ex, &rcv, &log, &tx);
                        let par = format!(
                            r##"<scxml {ns} name="par"><state id="a"><invoke id="kid"><content><scxml xmlns="http://www.w3.org/2005/07/scxml" version="1.0" datamodel="rfsm-expression" name="kid"><state id="k">
<onentry><send event="k2s" id="ks1" target="#_scxml_{sib}"/><send event="k2p" target="#_parent"/></onentry></state></scxml></content></invoke>
<transition event="k2p"><send event="p2s" target="#_scxml_{sib}"/></transition></state></scxml>"##,
                            ns = NS,
                            sib = sib.session_id
                        );
                        let p = start_n(&ex, &par, &log, &tx);
                        notes.lock().unwrap().push(format!("sib={}", sib.session_id));
                        // the parent's event is sent after the child's (it reacts to k2p): when it has arrived, k2s
                        // has been enqueued (or dropped) before
                        wait_for(&rx, &["got-p2s"]);
                        cancel_and_join(p);
                        cancel_and_join(sib);
                    })
                }),
                oracle: Box::new(|o: &Obs| {
                    basic_outcome(o)?;
                    let note = o.notes.first().cloned().unwrap_or_default();
                    let sib = note.trim_start_matches("sib=").to_string();
                    let mut got: Vec<(String, String)> = o
                        .recs
                        .iter()
                        .filter_map(|(_, r)| match r {
                            Rec::Mark { args, .. } if args.first().map(|x| x == "rx").unwrap_or(false) && args[2] != fsm::EVENT_CANCEL_SESSION => Some((args[1].clone(), args[2].clone())),
                            _ => None,
                        })
                        .collect();
                    got.sort();
                    let exp = vec![(sib.clone(), "k2s".to_string()), (sib.clone(), "p2s".to_string())];
                    if got != exp {
                        return Err(("routing-from-invoked-session".into(), format!("session {} was addressed by the invoked child (k2s) and by the parent (p2s); (session, event) received: {:?}", sib, got)));
                    }
                    Ok("ok".into())
                }),
            });
            // a top-level session started through the executor API (FsmExecutor::execute* gives it the caller invoke
            // id "") addresses its own child with #_<invokeid>
            v.push(Scenario {
                name: "executor-started-parent-sends-to-child",
                quick_bound: 0,
                thorough_bound: 1,
                atomics: false,
                body: Box::new(move |log, _notes| {
                    Box::new(move || {
                        let g = globals();
                        let _ = &log;
                        let mut ex = FsmExecutor::new_without_io_processor();
                        let (tx, rx) = verif_sync::mpsc::channel::<String>();
                        let par = format!(
                            r##"<scxml {ns} name="par"><state id="a"><invoke id="kid"><content><scxml xmlns="http://www.w3.org/2005/07/scxml" version="1.0" datamodel="rfsm-expression" name="kid"><state id="k">
<onentry><send event="k2p" target="#_parent"/></onentry><transition event="ping"><script>mark('rx', 'kid', _event.name)</script><send event="pong" target="#_parent"/></transition></state></scxml></content></invoke>
<transition event="k2p"><send event="ping" target="#_kid"/></transition>
<transition event="pong"><script>mark('rx', 'par', _event.name); notify('pong')</script></transition>
<transition event="error"><script>mark('rx', 'par', _event.name); notify('pong')</script></transition></state></scxml>"##,
                            ns = NS
                        );
                        let mut actions = ActionWrapper::new();
                        actions.add_action("mark", Box::new(MarkAction { current: g.current.clone() }));
                        actions.add_action("notify", Box::new(NotifyAction { tx: Arc::new(Mutex::new(tx.clone())) }));
                        let sess = ex
                            .execute_with_data_from_xml(&par, actions, &[], None, &"".to_string(), FinishMode::KEEP_CONFIGURATION, rufsm::tracer::TraceMode::ALL)
                            .expect("harness document must parse");
                        wait_for(&rx, &["pong"]);
                        cancel_and_join(sess);
                    })
                }),
                oracle: Box::new(|o: &Obs| {
                    basic_outcome(o)?;
                    let got: Vec<(String, String)> = o
                        .recs
                        .iter()
                        .filter_map(|(_, r)| match r {
                            Rec::Mark { args, .. } if args.first().map(|x| x == "rx").unwrap_or(false) => Some((args[1].clone(), args[2].clone())),
                            _ => None,
                        })
                        .collect();
                    if got != vec![("kid".to_string(), "ping".to_string()), ("par".to_string(), "pong".to_string())] {
                        return Err(("routing-to-child-of-executor-started-session".into(), format!("the parent sent 'ping' to #_kid and expects 'pong'; received (session, event): {:?}", got)));
                    }
                    Ok("ok".into())
                }),
            });
            let sd = sib_doc.clone();
            v.push(Scenario {
                name: "routing-parent-child-sibling",
                quick_bound: 0,
                thorough_bound: 1,
                atomics: false,
                body: Box::new(move |log, notes| {
                    let sd = sd.clone();
                    let pd = par_doc.clone();
                    Box::new(move || {
                        let ex = FsmExecutor::new_without_io_processor();
                        let (tx, rx) = verif_sync::mpsc::channel::<String>();
                        let sib = start_n(&ex, &sd, &log, &tx);
                        let par = start_n(&ex, &pd(sib.session_id), &log, &tx);
                        notes.lock().unwrap().push(format!("par={} sib={}", par.session_id, sib.session_id));
                        wait_for(&rx, &["k2p"]);
                        let _ = par.sender.send(Box::new(Event::new_simple("go")));
                        wait_for(&rx, &["e_self", "reply.kid", "reply.kid", "reply.sib", "reply.sib"]);
                        cancel_and_join(par);
                        cancel_and_join(sib);
                    })
                }),
                oracle: Box::new(|o: &Obs| {
                    basic_outcome(o)?;
                    let note = o.notes.first().cloned().unwrap_or_default();
                    let par: String = note.split(' ').next().unwrap_or("").trim_start_matches("par=").to_string();
                    let sib: String = note.split(' ').nth(1).unwrap_or("").trim_start_matches("sib=").to_string();
                    // (session, event) pairs received on external queues
                    let mut rx: Vec<(String, String, String, String)> = vec![];
                    let mut data: Vec<Vec<String>> = vec![];
                    let mut internal: Vec<Vec<String>> = vec![];
                    for (_, r) in &o.recs {
                        if let Rec::Mark { args, .. } = r {
                            match args[0].as_str() {
                                "rx" => rx.push((args[1].clone(), args[2].clone(), args[3].clone(), args[4].clone())),
                                "data" => data.push(args[1..].to_vec()),
                                "internal" => internal.push(args[1..].to_vec()),
                                _ => {}
                            }
                        }
                    }
                    let sessions: std::collections::BTreeSet<String> = rx.iter().map(|r| r.0.clone()).collect();
                    let kid: String = sessions.iter().find(|s| **s != par && **s != sib).cloned().unwrap_or_default();
                    let scxml_type = "http://www.w3.org/TR/scxml/#SCXMLEventProcessor";
                    let mut expect: Vec<(String, String)> = vec![
                        (par.clone(), "k2p".into()),
                        (par.clone(), "e_self".into()),
                        (sib.clone(), "e_sib".into()),
                        (sib.clone(), "e_sib_x".into()),
                        (kid.clone(), "e_kid".into()),
                        (kid.clone(), "e_kid_x".into()),
                        (par.clone(), "reply.kid".into()),
                        (par.clone(), "reply.kid".into()),
                        (par.clone(), "reply.sib".into()),
                        (par.clone(), "reply.sib".into()),
                    ];
                    let mut got: Vec<(String, String)> = rx.iter().filter(|r| r.1 != fsm::EVENT_CANCEL_SESSION).map(|r| (r.0.clone(), r.1.clone())).collect();
                    expect.sort();
                    got.sort();
                    if expect != got {
                        return Err(("routing".into(), format!("(session, event) received on external queues: {:?}, expected {:?} (par={} sib={} kid={})", got, expect, par, sib, kid)));
                    }
                    if internal != vec![vec!["e_int".to_string(), "internal".to_string()]] {
                        return Err(("routing-internal".into(), format!("'#_internal' delivery: {:?}", internal)));
                    }
                    for r in &rx {
                        if r.1 != fsm::EVENT_CANCEL_SESSION && r.3 != scxml_type {
                            return Err(("origintype".into(), format!("event {} in session {} has origintype {:?}", r.1, r.0, r.3)));
                        }
                    }
                    let sid_of = |ev: &str| rx.iter().find(|r| r.1 == ev).map(|r| r.2.clone()).unwrap_or_default();
                    if sid_of("e_self") != "s1" || sid_of("e_sib") != "s2" {
                        return Err(("sendid".into(), format!("sendid of e_self {:?} (sent s1), of e_sib {:?} (sent s2)", sid_of("e_self"), sid_of("e_sib"))));
                    }
                    let gen = sid_of("e_kid_x");
                    if !(gen.starts_with("a.") && gen.len() > 2) {
                        return Err(("generated-id".into(), format!("send with idlocation in state a generated id {:?} (expected a.<platformid>)", gen)));
                    }
                    data.sort();
                    let exp_data = vec![
                        vec!["e_kid".to_string(), "3".to_string()],
                        vec!["e_sib".to_string(), "4".to_string(), "ww".to_string()],
                    ];
                    let have: Vec<Vec<String>> = data.iter().filter(|d| d[0] == "e_kid" || d[0] == "e_sib").cloned().collect();
                    if have != exp_data {
                        return Err(("payload".into(), format!("param data arrived as {:?}, expected {:?}", have, exp_data)));
                    }
                    if let Some(d) = data.iter().find(|d| d[0] == "e_sib_x") {
                        if d.len() < 3 || d[2] != "body" {
                            return Err(("payload".into(), format!("content data arrived as {:?}", d)));
                        }
                    }
                    Ok("routed".into())
                }),
            });
            // uniqueness of session ids and generated ids when sessions start concurrently
            let udoc = format!(
                r##"<scxml {ns} name="u"><datamodel><data id="i1" expr="''"/><data id="i2" expr="''"/></datamodel><state id="a"><onentry>
<send event="x1" idlocation="i1"/><send event="x2" idlocation="i2"/><script>mark('ids', _sessionid, i1, i2)</script></onentry></state></scxml>"##,
                ns = NS
            );
            for (nsess, sname, qb, tb) in [(2usize, "concurrent-starts-unique-ids-2-sessions", 1usize, 2usize), (3, "concurrent-starts-unique-ids-3-sessions", 0, 1)] {
            let udoc = udoc.clone();
            v.push(Scenario {
                name: sname,
                quick_bound: qb,
                thorough_bound: tb,
                atomics: true,
                body: Box::new(move |log, _notes| {
                    let udoc = udoc.clone();
                    Box::new(move || {
                        let ex = FsmExecutor::new_without_io_processor();
                        // documents are parsed up-front (the reader's id counters are not the subject);
                        // what runs concurrently is session start and the sessions' own id generation
                        let prepared: Vec<(Box<rufsm::fsm::Fsm>, ActionWrapper)> = (0..nsess)
                            .map(|_| {
                                let mut fsm = parse(&udoc).expect("parse");
                                fsm.tracer = Box::new(Recorder::new(log.clone()));
                                let mut actions = ActionWrapper::new();
                                actions.add_action("mark", Box::new(MarkAction { current: globals().current.clone() }));
                                (fsm, actions)
                            })
                            .collect();
                        let mut hs = vec![];
                        let mut it = prepared.into_iter();
                        let first = it.next().unwrap();
                        for (fsm, actions) in it {
                            let ex2 = ex.clone();
                            hs.push(spawn(move || {
                                let s = fsm::start_fsm_with_data_and_finish_mode(fsm, actions, Box::new(ex2), &[], FinishMode::KEEP_CONFIGURATION);
                                cancel_and_join(s);
                            }));
                        }
                        let s0 = fsm::start_fsm_with_data_and_finish_mode(first.0, first.1, Box::new(ex.clone()), &[], FinishMode::KEEP_CONFIGURATION);
                        cancel_and_join(s0);
                        for h in hs {
                            let _ = h.join();
                        }
                    })
                }),
                oracle: Box::new(move |o: &Obs| {
                    basic_outcome(o)?;
                    let mut sids = vec![];
                    let mut ids = vec![];
                    for (_, r) in &o.recs {
                        if let Rec::Mark { args, .. } = r {
                            if args[0] == "ids" {
                                sids.push(args[1].clone());
                                ids.push(args[2].clone());
                                ids.push(args[3].clone());
                            }
                        }
                    }
                    if sids.len() != nsess {
                        return Err(("sessions".into(), format!("{} of {} sessions ran their onentry", sids.len(), nsess)));
                    }
                    let us: std::collections::BTreeSet<&String> = sids.iter().collect();
                    if us.len() != sids.len() {
                        return Err(("duplicate-session-id".into(), format!("session ids {:?}", sids)));
                    }
                    let ui: std::collections::BTreeSet<&String> = ids.iter().collect();
                    if ui.len() != ids.len() || ids.iter().any(|i| i.is_empty()) {
                        return Err(("duplicate-generated-id".into(), format!("generated send ids {:?}", ids)));
                    }
                    Ok("unique".into())
                }),
            });
            }
        }
        if prop == "C17" {
            let simple: Oracle = Box::new(|o: &Obs| {
                basic_outcome(o)?;
                Ok("finished".into())
            });
            let _ = simple;
            // (a) a session executes <invoke> while its own delayed send fires
            v.push(Scenario {
                name: "invoke-vs-own-delayed-send",
                quick_bound: 1,
                thorough_bound: 2,
                atomics: false,
                body: Box::new(move |log, _notes| {
                    Box::new(move || {
                        let ex = FsmExecutor::new_without_io_processor();
                        let doc = format!(
                            r##"<scxml {ns} name="inv"><state id="a">
<onentry><send event="tick" delay="10ms"/></onentry>
<transition event="go" target="b"/></state>
<state id="b"><invoke id="kid"><content><scxml xmlns="http://www.w3.org/2005/07/scxml" version="1.0" datamodel="rfsm-expression"><state id="k"/></scxml></content></invoke>
<transition event="tick"><script>mark('tick')</script></transition></state></scxml>"##,
                            ns = NS
                        );
                        let sess = start(&ex, &doc, &log);
                        let _ = sess.sender.send(Box::new(Event::new_simple("go")));
                        cancel_and_join(sess);
                    })
                }),
                oracle: Box::new(|o: &Obs| {
                    basic_outcome(o)?;
                    Ok("finished".into())
                }),
            });
            // (b) two sessions send to each other while one of them invokes a child
            v.push(Scenario {
                name: "mutual-send-while-invoking",
                quick_bound: 1,
                thorough_bound: 2,
                atomics: false,
                body: Box::new(move |log, _notes| {
                    Box::new(move || {
                        let ex = FsmExecutor::new_without_io_processor();
                        // session ids are assigned from a global counter; the partner's id is passed as event data
                        let doc = format!(
                            r##"<scxml {ns} name="peer"><datamodel><data id="peer" expr="0"/></datamodel><state id="a">
<transition event="peer" ><assign location="peer" expr="_event.data.id"/></transition>
<transition event="go" target="b"><send event="hello" targetexpr="'#_scxml_' + peer"/></transition>
<transition event="hello"><script>mark('hello')</script></transition></state>
<state id="b"><invoke id="kid"><content><scxml xmlns="http://www.w3.org/2005/07/scxml" version="1.0" datamodel="rfsm-expression"><state id="k"/></scxml></content></invoke>
<transition event="hello"><script>mark('hello')</script></transition></state></scxml>"##,
                            ns = NS
                        );
                        let s1 = start(&ex, &doc, &log);
                        let s2 = start(&ex, &doc, &log);
                        let mk = |id: u32| {
                            let mut e = Event::new_simple("peer");
                            e.param_values = Some(vec![rufsm::fsm::ParamPair::new("id", &rufsm::datamodel::Data::Integer(id as i64))]);
                            e
                        };
                        let _ = s1.sender.send(Box::new(mk(s2.session_id)));
                        let _ = s2.sender.send(Box::new(mk(s1.session_id)));
                        let _ = s1.sender.send(Box::new(Event::new_simple("go")));
                        let _ = s2.sender.send(Box::new(Event::new_simple("go")));
                        cancel_and_join(s1);
                        cancel_and_join(s2);
                    })
                }),
                oracle: Box::new(|o: &Obs| {
                    basic_outcome(o)?;
                    Ok("finished".into())
                }),
            });
            // (f) a custom action that uses the executor (actions run with the session's global data locked) while
            // a peer session sends an event to that session
            v.push(Scenario {
                name: "action-uses-executor-while-peer-sends",
                quick_bound: 1,
                thorough_bound: 2,
                atomics: false,
                body: Box::new(move |log, _notes| {
                    Box::new(move || {
                        let ex = FsmExecutor::new_without_io_processor();
                        let g = globals();
                        let start_p = |xml: &str| -> ScxmlSession {
                            let mut fsm = parse(xml).expect("harness document must parse");
                            fsm.tracer = Box::new(Recorder::new(log.clone()));
                            let mut actions = ActionWrapper::new();
                            actions.add_action("mark", Box::new(MarkAction { current: g.current.clone() }));
                            actions.add_action("poke", Box::new(PokeAction {}));
                            fsm::start_fsm_with_data_and_finish_mode(fsm, actions, Box::new(ex.clone()), &[], FinishMode::KEEP_CONFIGURATION)
                        };
                        let doc = format!(
                            r##"<scxml {ns} name="act"><datamodel><data id="peer" expr="0"/></datamodel><state id="a">
<transition event="peer"><assign location="peer" expr="_event.data.id"/></transition>
<transition event="work"><script>poke(peer)</script></transition>
<transition event="go"><send event="hello" targetexpr="'#_scxml_' + peer"/></transition>
<transition event="hello poked"><script>mark('got', _event.name)</script></transition></state></scxml>"##,
                            ns = NS
                        );
                        let s1 = start_p(&doc);
                        let s2 = start_p(&doc);
                        let mk = |id: u32| {
                            let mut e = Event::new_simple("peer");
                            e.param_values = Some(vec![rufsm::fsm::ParamPair::new("id", &rufsm::datamodel::Data::Integer(id as i64))]);
                            e
                        };
                        let _ = s1.sender.send(Box::new(mk(s2.session_id)));
                        let _ = s2.sender.send(Box::new(mk(s1.session_id)));
                        // s1 runs the action (global data locked, wants the executor), s2 sends to s1
                        let _ = s1.sender.send(Box::new(Event::new_simple("work")));
                        let _ = s2.sender.send(Box::new(Event::new_simple("go")));
                        cancel_and_join(s1);
                        cancel_and_join(s2);
                    })
                }),
                oracle: Box::new(|o: &Obs| {
                    basic_outcome(o)?;
                    Ok("finished".into())
                }),
            });
            // (g) the parent sends to its child while the child session is still starting up
            v.push(Scenario {
                name: "send-to-child-during-its-startup",
                quick_bound: 1,
                thorough_bound: 2,
                atomics: false,
                body: Box::new(move |log, _notes| {
                    Box::new(move || {
                        let ex = FsmExecutor::new_without_io_processor();
                        let doc = format!(
                            r##"<scxml {ns} name="par"><state id="a"><transition event="go" target="b"/></state>
<state id="b"><invoke id="kid"><content><scxml xmlns="http://www.w3.org/2005/07/scxml" version="1.0" datamodel="rfsm-expression"><state id="k"><onentry><send event="fromkid" target="#_parent"/></onentry><transition event="x"><send event="answer" target="#_parent"/></transition></state></scxml></content></invoke>
<transition event="go2"><send event="x" target="#_kid"/></transition>
<transition event="fromkid answer error"><script>mark('got', _event.name)</script></transition></state></scxml>"##,
                            ns = NS
                        );
                        let sess = start(&ex, &doc, &log);
                        let _ = sess.sender.send(Box::new(Event::new_simple("go")));
                        let _ = sess.sender.send(Box::new(Event::new_simple("go2")));
                        cancel_and_join(sess);
                    })
                }),
                oracle: Box::new(|o: &Obs| {
                    basic_outcome(o)?;
                    Ok("finished".into())
                }),
            });
            // (h) a delayed send WITH an id fires (its callback updates the session's bookkeeping and then uses the I/O
            // processor) while the session thread itself is inside an immediate send on the same processor
            v.push(Scenario {
                name: "own-delayed-send-with-id-vs-immediate-send",
                quick_bound: 1,
                thorough_bound: 2,
                atomics: false,
                body: Box::new(move |log, _notes| {
                    Box::new(move || {
                        let ex = FsmExecutor::new_without_io_processor();
                        let doc = format!(
                            r##"<scxml {ns} name="tmr"><state id="a">
<onentry><send id="t1" event="tick" delay="10ms"/><send id="t2" event="tock" delay="20ms"/></onentry>
<transition event="go"><send event="x1"/><send event="x2" target="#_internal"/><send event="x3"/></transition>
<transition event="*"><script>mark('got', _event.name)</script></transition></state></scxml>"##,
                            ns = NS
                        );
                        let sess = start(&ex, &doc, &log);
                        let _ = sess.sender.send(Box::new(Event::new_simple("go")));
                        cancel_and_join(sess);
                    })
                }),
                oracle: Box::new(|o: &Obs| {
                    basic_outcome(o)?;
                    Ok("finished".into())
                }),
            });
            // (e) the parent is cancelled while it is starting / running an invoke
            v.push(Scenario {
                name: "cancel-during-invoke",
                quick_bound: 1,
                thorough_bound: 2,
                atomics: false,
                body: Box::new(move |log, _notes| {
                    Box::new(move || {
                        let ex = FsmExecutor::new_without_io_processor();
                        let doc = format!(
                            r##"<scxml {ns} name="par"><state id="a"><transition event="go" target="b"/></state>
<state id="b"><invoke id="kid"><content><scxml xmlns="http://www.w3.org/2005/07/scxml" version="1.0" datamodel="rfsm-expression"><state id="k"><onentry><send event="fromkid" target="#_parent"/></onentry></state></scxml></content></invoke>
<transition event="fromkid"><script>mark('fromkid')</script></transition></state></scxml>"##,
                            ns = NS
                        );
                        let sess = start(&ex, &doc, &log);
                        let snd = sess.sender.clone();
                        let h = spawn(move || {
                            let _ = snd.send(Box::new(Event::new_simple(fsm::EVENT_CANCEL_SESSION)));
                        });
                        let _ = sess.sender.send(Box::new(Event::new_simple("go")));
                        let _ = h.join();
                        cancel_and_join(sess);
                    })
                }),
                oracle: Box::new(|o: &Obs| {
                    basic_outcome(o)?;
                    Ok("finished".into())
                }),
            });
        }
        v
    }

    // -------------------------------------------------------------------------------------- driver

    fn run_scenario(ctx: &Ctx, out: &mut WorkerOut, sc: &Scenario, sched: &Arc<Sched>, max_bound: usize, max_exec: u64, forced: Option<Vec<String>>) {
        let g = globals();
        let log_slot: Arc<Mutex<Arc<RunLog>>> = Arc::new(Mutex::new(RunLog::new()));
        let notes: Arc<Mutex<Vec<String>>> = Arc::new(Mutex::new(vec![]));
        let ls = log_slot.clone();
        let nt = notes.clone();
        let gcur = g.current.clone();
        let body = &sc.body;
        let h = Harness {
            name: sc.name.to_string(),
            body: Box::new({
                // a fresh log per execution
                let ls = ls.clone();
                let nt = nt.clone();
                let gcur = gcur.clone();
                let body: &'static Body = unsafe { std::mem::transmute(body) };
                move || {
                    let log = RunLog::new();
                    *ls.lock().unwrap() = log.clone();
                    *gcur.lock().unwrap() = Some(log.clone());
                    nt.lock().unwrap().clear();
                    body(log, nt.clone())
                }
            }),
            atomics: sc.atomics,
            horizon: 20_000,
        };
        let slice = (ctx.worker.unwrap_or(0), ctx.workers.max(1));
        if let Some(prefix) = forced {
            // replay mode: run the schedule twice with backtraces
            for round in 0..2 {
                let r = sched.run_once((h.body)(), &prefix, &BTreeSet::new(), h.atomics, true, h.horizon);
                let o = Obs {
                    result: r.clone(),
                    recs: log_slot.lock().unwrap().snapshot(),
                    notes: notes.lock().unwrap().clone(),
                };
                eprintln!("round {}: outcome {:?}, {} steps, {} choices", round, short_outcome(&r.outcome), r.steps.len(), r.choices.len());
                match (sc.oracle)(&o) {
                    Ok(c) => eprintln!("  oracle: ok ({})", c),
                    Err((sig, m)) => {
                        eprintln!("  oracle: VIOLATION {} : {}", sig, m);
                        out.violations.push(json!({"sig": sig}));
                    }
                }
                if round == 1 {
                    for s in r.steps.iter().rev().take(40).rev() {
                        eprintln!("    {:>8} t={:<5} {}", s.thread, s.now, s.op);
                    }
                }
            }
            return;
        }
        for bound in 0..=max_bound {
            let mut execs_this_bound = 0u64;
            if ABANDONED_THREADS.load(std::sync::atomic::Ordering::Relaxed) > 1500 {
                break;
            }
            let mut on_exec = |prefix: &[String], r: &ExecResult| -> bool {
                // the root execution is run by every worker; count it once
                let _ = (prefix, slice);
                let counted = !r.duplicate;
                let o = Obs {
                    result: r.clone(),
                    recs: log_slot.lock().unwrap().snapshot(),
                    notes: notes.lock().unwrap().clone(),
                };
                if counted {
                    execs_this_bound += 1;
                    out.add("executions", 1);
                    out.add(&format!("executions_{}_b{}", sc.name.replace('-', "_"), bound), 1);
                    out.add("scheduler_steps", r.steps.len() as u64);
                    out.add("choice_points", r.choices.len() as u64);
                }
                match (sc.oracle)(&o) {
                    Ok(class) => {
                        if out.outcomes.len() < 400 {
                            out.outcomes.insert(format!("{}|{}", sc.name, class));
                        }
                        if out.samples.len() < 2 && r.choices.len() > 2 && preemptions(&r.choices) > 0 {
                            out.sample(json!({"scenario": sc.name, "bound": bound, "schedule": r.choices.iter().map(|c| c.chosen.clone()).collect::<Vec<_>>(), "outcome": class, "steps": r.steps.len()}));
                        }
                        true
                    }
                    Err((sig, msg)) => {
                        let full_sig = format!("{}:{}", sc.name, sig);
                        if sig.starts_with("MACHINERY") {
                            out.flag("machinery_divergence", true);
                            eprintln!("machinery: {} {}", sc.name, msg);
                            return true;
                        }
                        out.add(&format!("violations_{}", full_sig.replace(|c: char| !c.is_alphanumeric(), "_")), 1);
                        if !out.violations.iter().any(|v| v["sig"] == full_sig.as_str()) {
                            let sched_names: Vec<String> = r.choices.iter().map(|c| c.chosen.clone()).collect();
                            let tail: Vec<String> = r.steps.iter().rev().take(30).rev().map(|s| format!("{} {}", s.thread, s.op)).collect();
                            out.violation(
                                ctx,
                                &sig,
                                &full_sig,
                                &format!("{} (bound {}, {} preemptions, {} choices) | scenario {}", msg, bound, preemptions(&r.choices), r.choices.len(), sc.name),
                                json!({"engine":"e4","scenario": sc.name, "bound": bound, "schedule": sched_names, "last_steps": tail}),
                            );
                        }
                        // a deadlocked or stuck execution leaves parked threads behind: they are inert, but the
                        // process must not run out of threads - stop this scenario when too many piled up
                        if ABANDONED_THREADS.load(std::sync::atomic::Ordering::Relaxed) > 1500 {
                            out.flag("scenario_cut_short_after_many_unfinished_executions", true);
                            return false;
                        }
                        true
                    }
                }
            };
            let st = explore(sched, &h, bound, max_exec, slice, &mut on_exec);
            out.max("choices_per_execution", st.max_choices as u64);
            out.max("shared_objects", st.shared_objects as u64);
            out.max(&format!("bound_completed_{}", sc.name.replace('-', "_")), bound as u64);
            out.flag("execution_cap_hit", st.capped);
            let _ = execs_this_bound;
        }
    }

    fn short_outcome(o: &Outcome) -> String {
        match o {
            Outcome::Finished => "finished".into(),
            Outcome::Deadlock(_) => "DEADLOCK".into(),
            Outcome::Stuck(_) => "STUCK".into(),
            Outcome::Horizon => "HORIZON".into(),
            Outcome::Divergence(m) => format!("DIVERGENCE {}", m),
        }
    }

    /// C16 seam: every duration spelling over a small alphabet through parse_duration_to_milliseconds
    fn duration_spellings(ctx: &Ctx, out: &mut WorkerOut) {
        let alpha = ["0", "1", "5", "9", ".", "m", "s", "h", "d", "M", "S", "D", " ", "-", "e"];
        let maxlen = if ctx.thorough() { 6 } else { 5 };
        let mut total = 0u64;
        for len in 1..=maxlen {
            let n = (alpha.len() as u64).pow(len as u32);
            for i in 0..n {
                total += 1;
                if !ctx.mine(total as usize) {
                    continue;
                }
                let mut x = i;
                let mut sp = String::new();
                for _ in 0..len {
                    sp.push_str(alpha[(x % alpha.len() as u64) as usize]);
                    x /= alpha.len() as u64;
                }
                let r = std::panic::catch_unwind(|| rufsm::executable_content::parse_duration_to_milliseconds(&sp));
                out.add("duration_spellings", 1);
                let got = match r {
                    Ok(v) => v,
                    Err(_) => {
                        if !out.violations.iter().any(|v| v["sig"] == "duration:panic") {
                            out.violation(ctx, "duration-panic", "duration:panic", &format!("parse_duration_to_milliseconds({:?}) panics: {:?}", sp, take_panics().last()), json!({"engine":"e4","duration": sp}));
                        }
                        continue;
                    }
                };
                // documented form: digits, optional fraction, unit
                let pos = sp.find(|c: char| c.is_ascii_alphabetic());
                if let Some(p) = pos {
                    let (num, unit) = sp.split_at(p);
                    let well_formed_num = !num.is_empty()
                        && num.chars().all(|c| c.is_ascii_digit() || c == '.')
                        && num.matches('.').count() <= 1
                        && !num.ends_with('.')
                        && num.chars().next().map(|c| c.is_ascii_digit()).unwrap_or(false);
                    // units are documented in lower case, the test-suite also uses upper case; mixed
                    // case is not documented either way and is not judged
                    let uniform = unit == unit.to_ascii_lowercase() || unit == unit.to_ascii_uppercase();
                    let f = match unit.to_ascii_lowercase().as_str() {
                        _ if !uniform => None,
                        "ms" => Some(1.0),
                        "s" => Some(1000.0),
                        "m" => Some(60000.0),
                        "h" => Some(3_600_000.0),
                        "d" => Some(86_400_000.0),
                        _ => None,
                    };
                    if let (true, Some(f)) = (well_formed_num, f) {
                        let exp = (num.parse::<f64>().unwrap() * f).round() as i64;
                        out.add("duration_spellings_judged", 1);
                        if got != exp {
                            let sig = format!("duration:{}", unit.to_ascii_lowercase());
                            if !out.violations.iter().any(|v| v["sig"] == sig.as_str()) {
                                out.violation(ctx, "duration-value", &sig, &format!("duration {:?} is {} ms, rFSM computes {}", sp, exp, got), json!({"engine":"e4","duration": sp}));
                            }
                        }
                    }
                }
            }
        }
    }

    fn worker(ctx: &Ctx) {
        silence_stdout();
        globals();
        let sched = Sched::new();
        verif_sync::install(Some(Arc::new(Rt(sched.clone()))));
        let mut out = WorkerOut::default();
        let thorough = ctx.thorough();
        if ctx.prop == "C16" {
            duration_spellings(ctx, &mut out);
        }
        for sc in scenarios(&ctx.prop) {
            let b = if thorough { sc.thorough_bound } else { sc.quick_bound };
            run_scenario(ctx, &mut out, &sc, &sched, b, if thorough { 400_000 } else { 30_000 }, None);
            out.add("scenarios", if ctx.worker == Some(0) { 1 } else { 0 });
        }
        out.write(ctx);
    }

    fn replay(ctx: &Ctx, path: &str) -> i32 {
        globals();
        let v: Value = serde_json::from_str(&std::fs::read_to_string(path).expect("replay file")).expect("json");
        let name = v["scenario"].as_str().unwrap_or("");
        let schedule: Vec<String> = v["schedule"].as_array().map(|a| a.iter().map(|x| x.as_str().unwrap_or("").to_string()).collect()).unwrap_or_default();
        let sched = Sched::new();
        verif_sync::install(Some(Arc::new(Rt(sched.clone()))));
        let mut out = WorkerOut::default();
        let mut c2 = ctx.clone();
        c2.worker = Some(0);
        c2.workers = 1;
        for sc in scenarios(&ctx.prop) {
            if sc.name == name {
                eprintln!("replaying scenario {} with {} forced choices", name, schedule.len());
                run_scenario(&c2, &mut out, &sc, &sched, 0, 1, Some(schedule.clone()));
            }
        }
        if out.violations.iter().any(|v| v["sig"].as_str().map(|s| s.contains("MACHINERY")).unwrap_or(false)) {
            // the recorded schedule does not fit the code any more (or the machinery is not deterministic): not a verdict
            println!("MACHINERY-ERROR: the recorded schedule diverged on this tree (replay file recorded on different code?)");
            2
        } else if !out.violations.is_empty() {
            println!("VIOLATION property={} replay={}", ctx.prop, path);
            1
        } else {
            0
        }
    }

    pub fn main() {
        let ctx = parse_args();
        if let Some(p) = &ctx.replay {
            std::process::exit(replay(&ctx, p));
        }
        if ctx.worker.is_some() {
            worker(&ctx);
            return;
        }
        let agg = run_workers(&ctx);
        let spec = EvidenceSpec {
            level: "model_checking",
            rule: "real rFSM sessions, host threads and (virtual) timer threads run under a controlled scheduler: every mutex acquisition on a lock used by more than one thread, every channel send/receive, thread start/join and timer operation is a scheduling point; all schedules with at most the stated number of preemptions are executed by re-execution from the start (iterative preemption bounding, no sampling); an execution is non-trivial when it contains at least one choice point; distinct outcomes are distinct oracle observations",
            assumptions: vec![
                "the scenarios (harness/src/bin/e4.rs) fix the topology: 2-4 threads, 1-3 operations each".into(),
                "sequentially consistent interleaving of synchronisation operations; data races between them are not modelled".into(),
                "virtual timer: callbacks fire in due-time order, when they fire relative to other threads is a scheduler choice; real elapsed time is the timer crate's contract".into(),
                "mutexes used by a single thread in all explored executions are not preemption points (fix-point over the exploration)".into(),
            ],
            states_key: "executions",
            transitions_key: "scheduler_steps",
            validated_key: "executions",
            cap_flags: vec!["execution_cap_hit", "machinery_divergence", "scenario_cut_short_after_many_unfinished_executions"],
            extra: Map::new(),
        };
        std::process::exit(conclude(&ctx, &agg, spec));
    }
}

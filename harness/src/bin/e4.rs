//! E4: controlled-scheduler exploration of thread interleavings of real rFSM sessions
//! (C13 C14 C15 C16 C17). Needs the hooks build (--cfg rufsm_verif).

#[cfg(not(rufsm_verif))]
fn main() {
    eprintln!("e4 needs --cfg rufsm_verif");
    std::process::exit(2);
}

#[cfg(rufsm_verif)]
fn main() {
    imp::main();
}

#[cfg(rufsm_verif)]
mod imp {
    use rufsm::actions::ActionWrapper;
    use rufsm::fsm::{self, Event, FinishMode, ScxmlSession};
    use rufsm::fsm_executor::FsmExecutor;
    use rufsm::verif_sync;
    use serde_json::{json, Map, Value};
    use std::collections::BTreeSet;
    use std::sync::{Arc, Mutex};
    use vh::infra::*;
    use vh::rec::*;
    use vh::runner::{globals, parse, take_panics};
    use vh::sched::*;

    const NS: &str = "xmlns=\"http://www.w3.org/2005/07/scxml\" version=\"1.0\" datamodel=\"rfsm-expression\"";

    /// starts a session inside a controlled execution
    fn start(executor: &FsmExecutor, xml: &str, log: &Arc<RunLog>) -> ScxmlSession {
        let g = globals();
        let mut fsm = parse(xml).expect("harness document must parse");
        fsm.tracer = Box::new(Recorder::new(log.clone()));
        let mut actions = ActionWrapper::new();
        actions.add_action(
            "mark",
            Box::new(MarkAction {
                current: g.current.clone(),
            }),
        );
        fsm::start_fsm_with_data_and_finish_mode(fsm, actions, Box::new(executor.clone()), &[], FinishMode::KEEP_CONFIGURATION)
    }

    fn spawn<F: FnOnce() + Send + 'static>(f: F) -> verif_sync::thread::JoinHandle<()> {
        verif_sync::thread::Builder::new().spawn(f).unwrap()
    }

    fn cancel_and_join(mut s: ScxmlSession) {
        let _ = s.sender.send(Box::new(Event::new_simple(fsm::EVENT_CANCEL_SESSION)));
        if let Some(h) = s.thread.take() {
            let _ = h.join();
        }
    }

    /// observation of one execution handed to the oracle
    pub struct Obs {
        pub result: ExecResult,
        pub recs: Vec<(u32, Rec)>,
        /// values the body published (session ids, generated ids ...)
        pub notes: Vec<String>,
    }

    type Body = Box<dyn Fn(Arc<RunLog>, Arc<Mutex<Vec<String>>>) -> Box<dyn FnOnce() + Send + 'static> + Send + Sync>;
    type Oracle = Box<dyn Fn(&Obs) -> Result<String, (String, String)> + Send + Sync>;

    pub struct Scenario {
        pub name: &'static str,
        pub quick_bound: usize,
        pub thorough_bound: usize,
        pub atomics: bool,
        pub body: Body,
        /// Ok(outcome class) or Err((signature suffix, message))
        pub oracle: Oracle,
    }

    // -------------------------------------------------------------------------------------- oracles

    fn xrecv_names(recs: &[(u32, Rec)], tid: u32) -> Vec<String> {
        recs.iter()
            .filter_map(|(t, r)| match r {
                Rec::XRecv(e) if *t == tid => Some(e.name.clone()),
                _ => None,
            })
            .collect()
    }

    fn basic_outcome(o: &Obs) -> Result<(), (String, String)> {
        match &o.result.outcome {
            Outcome::Finished => {}
            Outcome::Deadlock(d) => {
                let mut edges: Vec<String> = d
                    .iter()
                    .filter(|(_, holds, wants)| wants.starts_with("lock") && !holds.is_empty())
                    .map(|(t, holds, wants)| format!("{} holds {:?} wants {}", t.lines().next().unwrap_or(""), holds, wants))
                    .collect();
                edges.sort();
                return Err(("deadlock".into(), format!("threads wait for each other's locks forever:\n  {}", d.iter().map(|(t, h, w)| format!("{} holds {:?} waits for: {}", t, h, w)).collect::<Vec<_>>().join("\n  "))));
            }
            Outcome::Stuck(d) => return Err(("stuck".into(), format!("no thread can continue: {:?}", d))),
            Outcome::Horizon => return Err(("horizon".into(), "step horizon reached (livelock candidate)".into())),
            Outcome::Divergence(m) => return Err(("MACHINERY-divergence".into(), m.clone())),
        }
        if let Some(t) = o.result.threads.iter().find(|t| t.2) {
            return Err(("thread-panicked".into(), format!("controlled thread {} panicked: {:?}", t.0, take_panics())));
        }
        Ok(())
    }

    // -------------------------------------------------------------------------------------- scenarios

    fn c13_doc() -> String {
        format!(
            r##"<scxml {ns} name="c13"><state id="s">
 <transition event="r"><script>mark('r-done')</script></transition>
 <transition event="*"><script>mark('got', _event.name)</script><raise event="r"/></transition>
</state></scxml>"##,
            ns = NS
        )
    }

    /// per-event macrostep atomicity + exactly once + per-sender order
    fn c13_oracle(senders: Vec<Vec<String>>) -> Oracle {
        Box::new(move |o: &Obs| {
            basic_outcome(o)?;
            let got = xrecv_names(&o.recs, main_tid(&o.recs));
            let got_wo_cancel: Vec<String> = got.iter().filter(|n| *n != fsm::EVENT_CANCEL_SESSION).cloned().collect();
            let mut sent: Vec<String> = senders.iter().flatten().cloned().collect();
            let mut g2 = got_wo_cancel.clone();
            sent.sort();
            g2.sort();
            if sent != g2 {
                return Err(("exactly-once".into(), format!("sent {:?} but processed {:?}", sent, got_wo_cancel)));
            }
            for s in &senders {
                let order: Vec<&String> = got_wo_cancel.iter().filter(|n| s.contains(n)).collect();
                let exp: Vec<&String> = s.iter().collect();
                if order != exp {
                    return Err(("sender-order".into(), format!("one sender sent {:?}, processed in order {:?}", exp, order)));
                }
            }
            // atomicity: XRecv(e) Mark(got,e) IRecv(r) Mark(r-done) before the next XRecv
            let t = main_tid(&o.recs);
            let seq: Vec<String> = o
                .recs
                .iter()
                .filter(|(tt, _)| *tt == t)
                .filter_map(|(_, r)| match r {
                    Rec::XRecv(e) => Some(format!("X:{}", e.name)),
                    Rec::IRecv(e) => Some(format!("I:{}", e.name)),
                    Rec::Mark { args, .. } => Some(format!("M:{}", args.join(","))),
                    _ => None,
                })
                .collect();
            let mut i = 0;
            while i < seq.len() {
                if let Some(name) = seq[i].strip_prefix("X:") {
                    if name == fsm::EVENT_CANCEL_SESSION {
                        break;
                    }
                    let exp = vec![format!("M:got,{}", name), "I:r".to_string(), "M:r-done".to_string()];
                    let have: Vec<String> = seq.iter().skip(i + 1).take(3).cloned().collect();
                    if have != exp {
                        return Err(("macrostep-overlap".into(), format!("after {} expected {:?}, trace has {:?} (full: {:?})", seq[i], exp, have, seq)));
                    }
                    i += 4;
                } else {
                    return Err(("macrostep-overlap".into(), format!("unexpected record {} outside a macrostep (full: {:?})", seq[i], seq)));
                }
            }
            Ok(got_wo_cancel.join(">"))
        })
    }

    /// thread index of the observed session: the one whose content executes mark('got', ..);
    /// before it processed anything: the first thread that produced tracer records
    fn main_tid(recs: &[(u32, Rec)]) -> u32 {
        recs.iter()
            .find(|(_, r)| matches!(r, Rec::Mark { args, .. } if args.first().map(|a| a == "got").unwrap_or(false)))
            .map(|r| r.0)
            .unwrap_or_else(|| recs.first().map(|r| r.0).unwrap_or(0))
    }

    fn scenarios(prop: &str) -> Vec<Scenario> {
        let mut v: Vec<Scenario> = vec![];
        match prop {
            "C13" => {
                // two host threads, two events each, through the session's sender
                let s1 = vec!["a1".to_string(), "a2".to_string()];
                let s2 = vec!["b1".to_string(), "b2".to_string()];
                let (x1, x2) = (s1.clone(), s2.clone());
                v.push(Scenario {
                    name: "two-hosts-x2-sender",
                    quick_bound: 2,
                    thorough_bound: 3,
                    atomics: false,
                    body: Box::new(move |log, _notes| {
                        let (x1, x2) = (x1.clone(), x2.clone());
                        Box::new(move || {
                            let ex = FsmExecutor::new_without_io_processor();
                            let sess = start(&ex, &c13_doc(), &log);
                            let snd1 = sess.sender.clone();
                            let snd2 = sess.sender.clone();
                            let h1 = spawn(move || {
                                for e in x1 {
                                    let _ = snd1.send(Box::new(Event::new_simple(&e)));
                                }
                            });
                            let h2 = spawn(move || {
                                for e in x2 {
                                    let _ = snd2.send(Box::new(Event::new_simple(&e)));
                                }
                            });
                            let _ = h1.join();
                            let _ = h2.join();
                            cancel_and_join(sess);
                        })
                    }),
                    oracle: c13_oracle(vec![s1.clone(), s2.clone()]),
                });
                // mixed producers: host through the executor, a sibling session through <send target=#_scxml_id>
                let s1 = vec!["h1".to_string(), "h2".to_string()];
                let s2 = vec!["sib1".to_string(), "sib2".to_string()];
                let x1 = s1.clone();
                v.push(Scenario {
                    name: "host-via-executor-and-sibling-session",
                    quick_bound: 1,
                    thorough_bound: 2,
                    atomics: false,
                    body: Box::new(move |log, _notes| {
                        let x1 = x1.clone();
                        Box::new(move || {
                            let ex = FsmExecutor::new_without_io_processor();
                            let sess = start(&ex, &c13_doc(), &log);
                            let sid = sess.session_id;
                            let sib_doc = format!(
                                r##"<scxml {ns} name="sib"><state id="w"><transition event="go" target="d">
<send event="sib1" target="#_scxml_{sid}"/><send event="sib2" target="#_scxml_{sid}"/></transition></state><state id="d"/></scxml>"##,
                                ns = NS,
                                sid = sid
                            );
                            let sib = start(&ex, &sib_doc, &log);
                            let ex2 = ex.clone();
                            let h1 = spawn(move || {
                                for e in x1 {
                                    let _ = ex2.send_to_session(sid, Event::new_simple(&e));
                                }
                            });
                            let _ = sib.sender.send(Box::new(Event::new_simple("go")));
                            let _ = h1.join();
                            cancel_and_join(sib);
                            cancel_and_join(sess);
                        })
                    }),
                    oracle: c13_oracle(vec![s1, s2]),
                });
                // a host sends through the executor while another host thread starts a session
                // (start_fsm holds the executor-state lock): contention on the session table
                let s1 = vec!["h1".to_string(), "h2".to_string()];
                let x1 = s1.clone();
                v.push(Scenario {
                    name: "host-via-executor-while-session-starts",
                    quick_bound: 1,
                    thorough_bound: 2,
                    atomics: false,
                    body: Box::new(move |log, _notes| {
                        let x1 = x1.clone();
                        Box::new(move || {
                            let ex = FsmExecutor::new_without_io_processor();
                            let sess = start(&ex, &c13_doc(), &log);
                            let sid = sess.session_id;
                            let ex2 = ex.clone();
                            let h1 = spawn(move || {
                                for e in x1 {
                                    let _ = ex2.send_to_session(sid, Event::new_simple(&e));
                                }
                            });
                            let ex3 = ex.clone();
                            let log3 = log.clone();
                            let h2 = spawn(move || {
                                let idle_doc = format!(r##"<scxml {ns} name="late"><state id="z"/></scxml>"##, ns = NS);
                                let late = start(&ex3, &idle_doc, &log3);
                                cancel_and_join(late);
                            });
                            let _ = h1.join();
                            let _ = h2.join();
                            cancel_and_join(sess);
                        })
                    }),
                    oracle: c13_oracle(vec![s1]),
                });
            }
            "C17" => {
                // (c) host shuts the executor down while a session sends to a session id target
                v.push(Scenario {
                    name: "shutdown-vs-send-to-session",
                    quick_bound: 1,
                    thorough_bound: 2,
                    atomics: false,
                    body: Box::new(move |log, _notes| {
                        Box::new(move || {
                            let ex = FsmExecutor::new_without_io_processor();
                            let target = start(&ex, &c13_doc(), &log);
                            let tid = target.session_id;
                            let doc = format!(
                                r##"<scxml {ns} name="snd"><state id="w"><transition event="go" target="d"><send event="x" target="#_scxml_{tid}"/></transition></state><state id="d"/></scxml>"##,
                                ns = NS,
                                tid = tid
                            );
                            let sender = start(&ex, &doc, &log);
                            let mut ex2 = ex.clone();
                            let h = spawn(move || {
                                ex2.shutdown();
                            });
                            let _ = sender.sender.send(Box::new(Event::new_simple("go")));
                            let _ = h.join();
                            cancel_and_join(sender);
                            cancel_and_join(target);
                        })
                    }),
                    oracle: Box::new(|o: &Obs| {
                        basic_outcome(o)?;
                        Ok("finished".into())
                    }),
                });
                // (d) host starts a session while another one sends to a third
                v.push(Scenario {
                    name: "start-session-vs-send",
                    quick_bound: 1,
                    thorough_bound: 2,
                    atomics: false,
                    body: Box::new(move |log, _notes| {
                        Box::new(move || {
                            let ex = FsmExecutor::new_without_io_processor();
                            let target = start(&ex, &c13_doc(), &log);
                            let tid = target.session_id;
                            let doc = format!(
                                r##"<scxml {ns} name="snd"><state id="w"><transition event="go" target="d"><send event="x" target="#_scxml_{tid}"/></transition></state><state id="d"/></scxml>"##,
                                ns = NS,
                                tid = tid
                            );
                            let sender = start(&ex, &doc, &log);
                            let ex2 = ex.clone();
                            let log2 = log.clone();
                            let h = spawn(move || {
                                let late = start(&ex2, &c13_doc(), &log2);
                                cancel_and_join(late);
                            });
                            let _ = sender.sender.send(Box::new(Event::new_simple("go")));
                            let _ = h.join();
                            cancel_and_join(sender);
                            cancel_and_join(target);
                        })
                    }),
                    oracle: Box::new(|o: &Obs| {
                        basic_outcome(o)?;
                        Ok("finished".into())
                    }),
                });
            }
            _ => {}
        }
        if prop == "C17" {
            let simple: Oracle = Box::new(|o: &Obs| {
                basic_outcome(o)?;
                Ok("finished".into())
            });
            let _ = simple;
            // (a) a session executes <invoke> while its own delayed send fires
            v.push(Scenario {
                name: "invoke-vs-own-delayed-send",
                quick_bound: 1,
                thorough_bound: 2,
                atomics: false,
                body: Box::new(move |log, _notes| {
                    Box::new(move || {
                        let ex = FsmExecutor::new_without_io_processor();
                        let doc = format!(
                            r##"<scxml {ns} name="inv"><state id="a">
<onentry><send event="tick" delay="10ms"/></onentry>
<transition event="go" target="b"/></state>
<state id="b"><invoke id="kid"><content><scxml xmlns="http://www.w3.org/2005/07/scxml" version="1.0" datamodel="rfsm-expression"><state id="k"/></scxml></content></invoke>
<transition event="tick"><script>mark('tick')</script></transition></state></scxml>"##,
                            ns = NS
                        );
                        let sess = start(&ex, &doc, &log);
                        let _ = sess.sender.send(Box::new(Event::new_simple("go")));
                        cancel_and_join(sess);
                    })
                }),
                oracle: Box::new(|o: &Obs| {
                    basic_outcome(o)?;
                    Ok("finished".into())
                }),
            });
            // (b) two sessions send to each other while one of them invokes a child
            v.push(Scenario {
                name: "mutual-send-while-invoking",
                quick_bound: 1,
                thorough_bound: 2,
                atomics: false,
                body: Box::new(move |log, _notes| {
                    Box::new(move || {
                        let ex = FsmExecutor::new_without_io_processor();
                        // session ids are assigned from a global counter; the partner's id is passed as event data
                        let doc = format!(
                            r##"<scxml {ns} name="peer"><datamodel><data id="peer" expr="0"/></datamodel><state id="a">
<transition event="peer" ><assign location="peer" expr="_event.data.id"/></transition>
<transition event="go" target="b"><send event="hello" targetexpr="'#_scxml_' + peer"/></transition>
<transition event="hello"><script>mark('hello')</script></transition></state>
<state id="b"><invoke id="kid"><content><scxml xmlns="http://www.w3.org/2005/07/scxml" version="1.0" datamodel="rfsm-expression"><state id="k"/></scxml></content></invoke>
<transition event="hello"><script>mark('hello')</script></transition></state></scxml>"##,
                            ns = NS
                        );
                        let s1 = start(&ex, &doc, &log);
                        let s2 = start(&ex, &doc, &log);
                        let mk = |id: u32| {
                            let mut e = Event::new_simple("peer");
                            e.param_values = Some(vec![rufsm::fsm::ParamPair::new("id", &rufsm::datamodel::Data::Integer(id as i64))]);
                            e
                        };
                        let _ = s1.sender.send(Box::new(mk(s2.session_id)));
                        let _ = s2.sender.send(Box::new(mk(s1.session_id)));
                        let _ = s1.sender.send(Box::new(Event::new_simple("go")));
                        let _ = s2.sender.send(Box::new(Event::new_simple("go")));
                        cancel_and_join(s1);
                        cancel_and_join(s2);
                    })
                }),
                oracle: Box::new(|o: &Obs| {
                    basic_outcome(o)?;
                    Ok("finished".into())
                }),
            });
            // (e) the parent is cancelled while it is starting / running an invoke
            v.push(Scenario {
                name: "cancel-during-invoke",
                quick_bound: 1,
                thorough_bound: 2,
                atomics: false,
                body: Box::new(move |log, _notes| {
                    Box::new(move || {
                        let ex = FsmExecutor::new_without_io_processor();
                        let doc = format!(
                            r##"<scxml {ns} name="par"><state id="a"><transition event="go" target="b"/></state>
<state id="b"><invoke id="kid"><content><scxml xmlns="http://www.w3.org/2005/07/scxml" version="1.0" datamodel="rfsm-expression"><state id="k"><onentry><send event="fromkid" target="#_parent"/></onentry></state></scxml></content></invoke>
<transition event="fromkid"><script>mark('fromkid')</script></transition></state></scxml>"##,
                            ns = NS
                        );
                        let sess = start(&ex, &doc, &log);
                        let snd = sess.sender.clone();
                        let h = spawn(move || {
                            let _ = snd.send(Box::new(Event::new_simple(fsm::EVENT_CANCEL_SESSION)));
                        });
                        let _ = sess.sender.send(Box::new(Event::new_simple("go")));
                        let _ = h.join();
                        cancel_and_join(sess);
                    })
                }),
                oracle: Box::new(|o: &Obs| {
                    basic_outcome(o)?;
                    Ok("finished".into())
                }),
            });
        }
        v
    }

    // -------------------------------------------------------------------------------------- driver

    fn run_scenario(ctx: &Ctx, out: &mut WorkerOut, sc: &Scenario, sched: &Arc<Sched>, max_bound: usize, max_exec: u64, forced: Option<Vec<String>>) {
        let g = globals();
        let log_slot: Arc<Mutex<Arc<RunLog>>> = Arc::new(Mutex::new(RunLog::new()));
        let notes: Arc<Mutex<Vec<String>>> = Arc::new(Mutex::new(vec![]));
        let ls = log_slot.clone();
        let nt = notes.clone();
        let gcur = g.current.clone();
        let body = &sc.body;
        let h = Harness {
            name: sc.name.to_string(),
            body: Box::new({
                // a fresh log per execution
                let ls = ls.clone();
                let nt = nt.clone();
                let gcur = gcur.clone();
                let body: &'static Body = unsafe { std::mem::transmute(body) };
                move || {
                    let log = RunLog::new();
                    *ls.lock().unwrap() = log.clone();
                    *gcur.lock().unwrap() = Some(log.clone());
                    nt.lock().unwrap().clear();
                    body(log, nt.clone())
                }
            }),
            atomics: sc.atomics,
            horizon: 20_000,
        };
        let slice = (ctx.worker.unwrap_or(0), ctx.workers.max(1));
        if let Some(prefix) = forced {
            // replay mode: run the schedule twice with backtraces
            for round in 0..2 {
                let r = sched.run_once((h.body)(), &prefix, &BTreeSet::new(), h.atomics, true, h.horizon);
                let o = Obs {
                    result: r.clone(),
                    recs: log_slot.lock().unwrap().snapshot(),
                    notes: notes.lock().unwrap().clone(),
                };
                eprintln!("round {}: outcome {:?}, {} steps, {} choices", round, short_outcome(&r.outcome), r.steps.len(), r.choices.len());
                match (sc.oracle)(&o) {
                    Ok(c) => eprintln!("  oracle: ok ({})", c),
                    Err((sig, m)) => {
                        eprintln!("  oracle: VIOLATION {} : {}", sig, m);
                        out.violations.push(json!({"sig": sig}));
                    }
                }
                if round == 1 {
                    for s in r.steps.iter().rev().take(40).rev() {
                        eprintln!("    {:>8} t={:<5} {}", s.thread, s.now, s.op);
                    }
                }
            }
            return;
        }
        for bound in 0..=max_bound {
            let mut execs_this_bound = 0u64;
            let mut on_exec = |prefix: &[String], r: &ExecResult| -> bool {
                // the root execution is run by every worker; count it once
                let counted = !(prefix.is_empty() && slice.0 != 0);
                let o = Obs {
                    result: r.clone(),
                    recs: log_slot.lock().unwrap().snapshot(),
                    notes: notes.lock().unwrap().clone(),
                };
                if counted {
                    execs_this_bound += 1;
                    out.add("executions", 1);
                    out.add("scheduler_steps", r.steps.len() as u64);
                    out.add("choice_points", r.choices.len() as u64);
                }
                match (sc.oracle)(&o) {
                    Ok(class) => {
                        if out.outcomes.len() < 400 {
                            out.outcomes.insert(format!("{}|{}", sc.name, class));
                        }
                        if out.samples.len() < 2 && r.choices.len() > 2 && preemptions(&r.choices) > 0 {
                            out.sample(json!({"scenario": sc.name, "bound": bound, "schedule": r.choices.iter().map(|c| c.chosen.clone()).collect::<Vec<_>>(), "outcome": class, "steps": r.steps.len()}));
                        }
                        true
                    }
                    Err((sig, msg)) => {
                        let full_sig = format!("{}:{}", sc.name, sig);
                        if sig.starts_with("MACHINERY") {
                            out.flag("machinery_divergence", true);
                            eprintln!("machinery: {} {}", sc.name, msg);
                            return true;
                        }
                        out.add(&format!("violations_{}", full_sig.replace(|c: char| !c.is_alphanumeric(), "_")), 1);
                        if !out.violations.iter().any(|v| v["sig"] == full_sig.as_str()) {
                            let sched_names: Vec<String> = r.choices.iter().map(|c| c.chosen.clone()).collect();
                            let tail: Vec<String> = r.steps.iter().rev().take(30).rev().map(|s| format!("{} {}", s.thread, s.op)).collect();
                            out.violation(
                                ctx,
                                &sig,
                                &full_sig,
                                &format!("{} (bound {}, {} preemptions, {} choices) | scenario {}", msg, bound, preemptions(&r.choices), r.choices.len(), sc.name),
                                json!({"engine":"e4","scenario": sc.name, "bound": bound, "schedule": sched_names, "last_steps": tail}),
                            );
                        }
                        // a deadlocked or stuck execution leaves parked threads behind: keep going, they are inert
                        true
                    }
                }
            };
            let st = explore(sched, &h, bound, max_exec, slice, &mut on_exec);
            out.max("choices_per_execution", st.max_choices as u64);
            out.max("shared_objects", st.shared_objects as u64);
            out.max(&format!("bound_completed_{}", sc.name.replace('-', "_")), bound as u64);
            out.flag("execution_cap_hit", st.capped);
            let _ = execs_this_bound;
        }
    }

    fn short_outcome(o: &Outcome) -> String {
        match o {
            Outcome::Finished => "finished".into(),
            Outcome::Deadlock(_) => "DEADLOCK".into(),
            Outcome::Stuck(_) => "STUCK".into(),
            Outcome::Horizon => "HORIZON".into(),
            Outcome::Divergence(m) => format!("DIVERGENCE {}", m),
        }
    }

    fn worker(ctx: &Ctx) {
        silence_stdout();
        globals();
        let sched = Sched::new();
        verif_sync::install(Some(Arc::new(Rt(sched.clone()))));
        let mut out = WorkerOut::default();
        let thorough = ctx.thorough();
        for sc in scenarios(&ctx.prop) {
            let b = if thorough { sc.thorough_bound } else { sc.quick_bound };
            run_scenario(ctx, &mut out, &sc, &sched, b, if thorough { 400_000 } else { 30_000 }, None);
            out.add("scenarios", if ctx.worker == Some(0) { 1 } else { 0 });
        }
        out.write(ctx);
    }

    fn replay(ctx: &Ctx, path: &str) -> i32 {
        globals();
        let v: Value = serde_json::from_str(&std::fs::read_to_string(path).expect("replay file")).expect("json");
        let name = v["scenario"].as_str().unwrap_or("");
        let schedule: Vec<String> = v["schedule"].as_array().map(|a| a.iter().map(|x| x.as_str().unwrap_or("").to_string()).collect()).unwrap_or_default();
        let sched = Sched::new();
        verif_sync::install(Some(Arc::new(Rt(sched.clone()))));
        let mut out = WorkerOut::default();
        let mut c2 = ctx.clone();
        c2.worker = Some(0);
        c2.workers = 1;
        for sc in scenarios(&ctx.prop) {
            if sc.name == name {
                eprintln!("replaying scenario {} with {} forced choices", name, schedule.len());
                run_scenario(&c2, &mut out, &sc, &sched, 0, 1, Some(schedule.clone()));
            }
        }
        if !out.violations.is_empty() {
            println!("VIOLATION property={} replay={}", ctx.prop, path);
            1
        } else {
            0
        }
    }

    pub fn main() {
        let ctx = parse_args();
        if let Some(p) = &ctx.replay {
            std::process::exit(replay(&ctx, p));
        }
        if ctx.worker.is_some() {
            worker(&ctx);
            return;
        }
        let agg = run_workers(&ctx);
        let spec = EvidenceSpec {
            level: "model_checking",
            rule: "real rFSM sessions, host threads and (virtual) timer threads run under a controlled scheduler: every mutex acquisition on a lock used by more than one thread, every channel send/receive, thread start/join and timer operation is a scheduling point; all schedules with at most the stated number of preemptions are executed by re-execution from the start (iterative preemption bounding, no sampling); an execution is non-trivial when it contains at least one choice point; distinct outcomes are distinct oracle observations",
            assumptions: vec![
                "the scenarios (harness/src/bin/e4.rs) fix the topology: 2-4 threads, 1-3 operations each".into(),
                "sequentially consistent interleaving of synchronisation operations; data races between them are not modelled".into(),
                "virtual timer: callbacks fire in due-time order, when they fire relative to other threads is a scheduler choice; real elapsed time is the timer crate's contract".into(),
                "mutexes used by a single thread in all explored executions are not preemption points (fix-point over the exploration)".into(),
            ],
            states_key: "executions",
            transitions_key: "scheduler_steps",
            validated_key: "executions",
            cap_flags: vec!["execution_cap_hit", "machinery_divergence"],
            extra: Map::new(),
        };
        std::process::exit(conclude(&ctx, &agg, spec));
    }
}

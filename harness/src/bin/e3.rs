//! E3: reader / binary format / I-O faults (C04, C05, C18) by bounded-exhaustive enumeration.

use rufsm::datamodel::{create_data_arc, Data, SourceCode};
use rufsm::fsm::Fsm;
use rufsm::serializer::default_protocol_reader::DefaultProtocolReader;
use rufsm::serializer::default_protocol_writer::DefaultProtocolWriter;
use rufsm::serializer::fsm_reader::FsmReader;
use rufsm::serializer::fsm_writer::FsmWriter;
use rufsm::serializer::protocol_reader::ProtocolReader;
use rufsm::serializer::protocol_writer::ProtocolWriter;
use serde_json::{json, Map, Value};
use std::collections::HashMap;
use std::io::Write;
use std::panic::{catch_unwind, AssertUnwindSafe};
use vh::doc::*;
use vh::dump::*;
use vh::expect::*;
use vh::explore::{Explorer, Opts};
use vh::gen::*;
use vh::infra::*;
use vh::runner::{globals, take_panics};
use vh::xmlrender::*;

// ------------------------------------------------------------------------------------------ corpus

fn m(tag: &str) -> Stmt {
    Stmt::Mark(vec![tag.to_string()])
}

fn leaf_menu() -> Vec<Stmt> {
    vec![
        m("L"),
        Stmt::Raise("ev.x".into()),
        Stmt::Assign("v".into(), Expr::VarPlus("v".into(), 1)),
        Stmt::AssignText("v".into(), "some text".into()),
        Stmt::Log(Expr::Var("v".into())),
        Stmt::LogL("lbl".into(), "v + 1".into()),
        Stmt::ScriptText("v ?= 3; w ?= 4".into()),
        Stmt::SendInternal("i1".into()),
        Stmt::SendSelf("x1".into()),
        Stmt::CancelX {
            sendid: Some("sid1".into()),
            sendidexpr: None,
        },
        Stmt::CancelX {
            sendid: None,
            sendidexpr: Some("v".into()),
        },
        Stmt::SendX(SendSpec {
            attrs: vec![("event".into(), "e9".into()), ("id".into(), "sid1".into()), ("delay".into(), "1.5s".into())],
            params: vec![],
            content: None,
        }),
    ]
}

/// sub-block menus for nesting
fn sub_blocks(level: usize, counter: &mut usize) -> Vec<Block> {
    let mut fresh = |c: &mut usize| {
        *c += 1;
        m(&format!("m{}", c))
    };
    if level == 0 {
        return vec![vec![], vec![fresh(counter)]];
    }
    vec![
        vec![],
        vec![fresh(counter)],
        vec![Stmt::If {
            branches: vec![(Expr::VarEq("v".into(), 1), vec![fresh(counter)])],
            els: None,
        }],
        vec![Stmt::If {
            branches: vec![(Expr::VarEq("v".into(), 1), vec![fresh(counter)])],
            els: Some(vec![fresh(counter)]),
        }],
        vec![
            fresh(counter),
            Stmt::If {
                branches: vec![
                    (Expr::VarEq("v".into(), 1), vec![fresh(counter)]),
                    (Expr::VarEq("v".into(), 2), vec![fresh(counter)]),
                ],
                els: None,
            },
        ],
        vec![Stmt::Foreach {
            array: Expr::Arr(vec![1, 2]),
            item: "it".into(),
            index: Some("ix".into()),
            body: vec![fresh(counter)],
        }],
    ]
}

/// structured items over sub-block menu
fn items(level: usize) -> Vec<Stmt> {
    let mut c = 1000usize;
    let subs = sub_blocks(level, &mut c);
    let mut out = vec![m("x")];
    let cond = |k: i64| Expr::VarEq("v".into(), k);
    for b1 in &subs {
        out.push(Stmt::If {
            branches: vec![(cond(1), b1.clone())],
            els: None,
        });
        out.push(Stmt::Foreach {
            array: Expr::Arr(vec![1]),
            item: "it".into(),
            index: None,
            body: b1.clone(),
        });
        for b2 in &subs {
            out.push(Stmt::If {
                branches: vec![(cond(1), b1.clone())],
                els: Some(b2.clone()),
            });
            out.push(Stmt::If {
                branches: vec![(cond(1), b1.clone()), (cond(2), b2.clone())],
                els: None,
            });
            for b3 in &subs {
                out.push(Stmt::If {
                    branches: vec![(cond(1), b1.clone()), (cond(2), b2.clone())],
                    els: Some(b3.clone()),
                });
                if level == 0 {
                    for b4 in &subs {
                        out.push(Stmt::If {
                            branches: vec![(cond(1), b1.clone()), (cond(2), b2.clone()), (cond(3), b3.clone())],
                            els: Some(b4.clone()),
                        });
                    }
                }
            }
        }
    }
    out
}

fn content_host(block: Block, host: usize) -> Doc {
    let mut d = Doc::new();
    d.nodes[0].data.push(("v".into(), Some(Expr::Int(0))));
    let a = d.add(0, "a", Kind::State);
    let h = d.add(a, "h", Kind::HistShallow);
    let a1 = d.add(a, "a1", Kind::State);
    let b = d.add(0, "b", Kind::State);
    d.nodes[h].trans.push(Trans {
        events: vec![],
        cond: None,
        targets: vec![a1],
        internal: false,
        content: if host == 4 { block.clone() } else { vec![] },
    });
    match host {
        0 => d.nodes[a].onentry.push(block),
        1 => d.nodes[a].onexit.push(block),
        2 => d.nodes[a].trans.push(Trans {
            events: vec!["e".into()],
            cond: None,
            targets: vec![b],
            internal: false,
            content: block,
        }),
        3 => d.nodes[a].initial_elem = Some((vec![a1], block)),
        4 => {}
        _ => {
            d.nodes[a].invokes.push(InvokeSpec {
                attrs: vec![("id".into(), "inv1".into()), ("src".into(), "child.scxml".into())],
                params: vec![],
                content: None,
                finalize: Some(block),
            });
        }
    }
    d.nodes[b].trans.push(Trans {
        events: vec!["back".into()],
        cond: None,
        targets: vec![h],
        internal: false,
        content: vec![],
    });
    d
}

fn subsets<T: Clone>(v: &[T]) -> Vec<Vec<T>> {
    let mut out = vec![];
    for mask in 0..(1usize << v.len()) {
        let mut s = vec![];
        for (i, x) in v.iter().enumerate() {
            if mask & (1 << i) != 0 {
                s.push(x.clone());
            }
        }
        out.push(s);
    }
    out
}

/// attribute-combination documents for send / invoke / donedata / data / cancel
fn attr_docs(thorough: bool, sink: &mut dyn FnMut(String, Doc)) {
    // <send>
    let alt = |a: &str, b: &str, va: &str, vb: &str| -> Vec<Vec<(String, String)>> {
        vec![vec![], vec![(a.to_string(), va.to_string())], vec![(b.to_string(), vb.to_string())]]
    };
    let ev = alt("event", "eventexpr", "e.v", "'e' + v");
    let tg = alt("target", "targetexpr", "#_internal", "'#_scxml_' + _sessionid");
    let ty = alt("type", "typeexpr", "http://www.w3.org/TR/scxml/#SCXMLEventProcessor", "'scxml'");
    let id = alt("id", "idlocation", "sid", "v");
    let dl = alt("delay", "delayexpr", "250ms", "'1s'");
    let nl: Vec<Vec<(String, String)>> = vec![vec![], vec![("namelist".into(), "v w".into())]];
    let pars: Vec<Vec<ParamSpec>> = vec![
        vec![],
        vec![ParamSpec {
            name: "p1".into(),
            expr: Some("v + 1".into()),
            location: None,
        }],
        vec![
            ParamSpec {
                name: "p1".into(),
                expr: None,
                location: Some("v".into()),
            },
            ParamSpec {
                name: "p2".into(),
                expr: Some("'x'".into()),
                location: None,
            },
        ],
    ];
    let conts: Vec<Option<ContentSpec>> = vec![
        None,
        Some(ContentSpec {
            expr: Some("v".into()),
            text: None,
        }),
        Some(ContentSpec {
            expr: None,
            text: Some("plain text 17".into()),
        }),
    ];
    let mut n = 0;
    for e in &ev {
        for t in &tg {
            for y in &ty {
                for i in &id {
                    for d in &dl {
                        for l in &nl {
                            for (pi, p) in pars.iter().enumerate() {
                                for (ci, c) in conts.iter().enumerate() {
                                    if ci > 0 && (pi > 0 || !l.is_empty()) {
                                        continue; // content excludes params / namelist
                                    }
                                    n += 1;
                                    if !thorough && n % 7 != 1 && !(e.len() + t.len() + y.len() + i.len() + d.len() <= 1) {
                                        // quick tier: the listed sub-family (every 7th combination plus all single-attribute ones)
                                        continue;
                                    }
                                    let mut attrs = vec![];
                                    for part in [e, t, y, i, d, l] {
                                        attrs.extend(part.clone());
                                    }
                                    let blk = vec![Stmt::SendX(SendSpec {
                                        attrs,
                                        params: p.clone(),
                                        content: c.clone(),
                                    })];
                                    sink(format!("send-attrs #{}", n), content_host(blk, (n % 3) as usize));
                                }
                            }
                        }
                    }
                }
            }
        }
    }
    // <invoke>
    let ity = alt("type", "typeexpr", "scxml", "'scxml'");
    let isrc: Vec<(Vec<(String, String)>, Option<ContentSpec>)> = vec![
        (vec![("src".into(), "child.scxml".into())], None),
        (vec![("srcexpr".into(), "'child' + '.scxml'".into())], None),
        (
            vec![],
            Some(ContentSpec {
                expr: Some("v".into()),
                text: None,
            }),
        ),
        (
            vec![],
            Some(ContentSpec {
                expr: None,
                text: Some("some inline text".into()),
            }),
        ),
    ];
    let iid = alt("id", "idlocation", "child1", "v");
    let af: Vec<Vec<(String, String)>> = vec![vec![], vec![("autoforward".into(), "true".into())], vec![("autoforward".into(), "false".into())]];
    let fin: Vec<Option<Block>> = vec![None, Some(vec![m("fin"), Stmt::Assign("v".into(), Expr::EvData("p".into()))])];
    let mut k = 0;
    for t in &ity {
        for (s, c) in &isrc {
            for i in &iid {
                for a in &af {
                    for l in &nl {
                        for p in &pars {
                            for f in &fin {
                                k += 1;
                                if !thorough && k % 5 != 1 {
                                    continue;
                                }
                                let mut attrs = vec![];
                                for part in [t, s, i, a, l] {
                                    attrs.extend(part.clone());
                                }
                                let mut d = content_host(vec![], 0);
                                let a_ix = d.by_name("a").unwrap();
                                d.nodes[a_ix].invokes.push(InvokeSpec {
                                    attrs,
                                    params: p.clone(),
                                    content: c.clone(),
                                    finalize: f.clone(),
                                });
                                if k % 4 == 0 {
                                    // a second invoke in the same state
                                    d.nodes[a_ix].invokes.push(InvokeSpec {
                                        attrs: vec![("src".into(), "other.scxml".into())],
                                        params: vec![],
                                        content: None,
                                        finalize: None,
                                    });
                                }
                                sink(format!("invoke-attrs #{}", k), d);
                            }
                        }
                    }
                }
            }
        }
    }
    // <data> forms at several levels, binding, name, datamodel, global script
    for late in [false, true] {
        for dm in ["rfsm-expression", "null"] {
            for script in [None, Some(Expr::Raw("x ?= 1".into()))] {
                let mut d = content_host(vec![m("q")], 2);
                d.late_binding = late;
                d.datamodel = dm.to_string();
                d.script = script.clone();
                d.name = "doc name".into();
                let a_ix = d.by_name("a").unwrap();
                let a1 = d.by_name("a1").unwrap();
                d.nodes[a_ix].data.push(("da".into(), Some(Expr::Int(5))));
                d.nodes[a_ix].data.push(("db".into(), None));
                d.nodes[a1].data_text.push(("dt".into(), "[1,2,3]".into()));
                sink(format!("data-forms late={} dm={} script={}", late, dm, script.is_some()), d);
            }
        }
    }
    // donedata forms
    for v in 0..4 {
        // built in document order: a(a1, af), b
        let mut d = Doc::new();
        d.nodes[0].data.push(("v".into(), Some(Expr::Int(0))));
        let a_ix = d.add(0, "a", Kind::State);
        let a1 = d.add(a_ix, "a1", Kind::State);
        let f = d.add(a_ix, "af", Kind::Final);
        let b = d.add(0, "b", Kind::State);
        d.nodes[a1].trans.push(Trans {
            events: vec!["fin".into()],
            cond: None,
            targets: vec![f],
            internal: false,
            content: vec![],
        });
        d.nodes[a_ix].trans.push(Trans {
            events: vec!["done.state.a".into()],
            cond: None,
            targets: vec![b],
            internal: false,
            content: vec![m("done")],
        });
        d.nodes[f].donedata = match v {
            0 => None,
            1 => Some(DoneData {
                params: vec![("p".into(), Expr::Var("v".into()))],
                content: None,
            }),
            2 => Some(DoneData {
                params: vec![("p".into(), Expr::Var("v".into())), ("q".into(), Expr::Int(2))],
                content: None,
            }),
            _ => Some(DoneData {
                params: vec![],
                content: Some(Expr::VarPlus("v".into(), 1)),
            }),
        };
        sink(format!("donedata-forms #{}", v), d);
    }
    // event descriptor spellings and lists, conditions, types
    let descs = ["e", "e.", "e.*", "e.f", "e.f.*", "*", "e f", "e.* f.", "e *"];
    for ds in descs {
        for cond in [None, Some(Expr::VarLt("v".into(), 3))] {
            for internal in [false, true] {
                let mut d = content_host(vec![], 0);
                let a_ix = d.by_name("a").unwrap();
                let b_ix = d.by_name("b").unwrap();
                d.nodes[a_ix].trans.push(Trans {
                    events: vec![ds.to_string()],
                    cond: cond.clone(),
                    targets: vec![b_ix],
                    internal,
                    content: vec![m("t")],
                });
                sink(format!("descriptor {:?} cond={} internal={}", ds, cond.is_some(), internal), d);
            }
        }
    }
    let _ = subsets::<u8>(&[]);
}

/// texts that need escaping, in every place character data / attribute values appear
fn text_docs(sink: &mut dyn FnMut(String, Doc)) {
    let texts = ["1 < 2", "a & b", "x > y", "'q' + \"d\"", "plain", "\u{e9}\u{4e2d}"];
    for (ti, t) in texts.iter().enumerate() {
        // attribute positions
        let mut d = content_host(
            vec![
                Stmt::Log(Expr::Raw(t.to_string())),
                Stmt::Assign("v".into(), Expr::Raw(t.to_string())),
                Stmt::If {
                    branches: vec![(Expr::Raw(t.to_string()), vec![m("in")])],
                    els: None,
                },
            ],
            2,
        );
        let a_ix = d.by_name("a").unwrap();
        d.nodes[a_ix].trans[0].cond = Some(Expr::Raw(t.to_string()));
        d.nodes[a_ix].data.push(("dd".into(), Some(Expr::Raw(t.to_string()))));
        sink(format!("text-in-attributes #{}", ti), d);
        // character data positions
        let mut d2 = content_host(
            vec![
                Stmt::ScriptText(t.to_string()),
                Stmt::AssignText("v".into(), t.to_string()),
                Stmt::SendX(SendSpec {
                    attrs: vec![("event".into(), "e".into())],
                    params: vec![],
                    content: Some(ContentSpec {
                        expr: None,
                        text: Some(t.to_string()),
                    }),
                }),
            ],
            0,
        );
        let a_ix = d2.by_name("a").unwrap();
        d2.nodes[a_ix].data_text.push(("dt".into(), t.to_string()));
        d2.script = Some(Expr::Raw(t.to_string()));
        sink(format!("text-in-character-data #{}", ti), d2);
    }
}

fn corpus(ctx: &Ctx, sink: &mut dyn FnMut(String, Doc)) {
    let thorough = ctx.thorough();
    // structure: every kinded tree with history variants and every candidate transition
    for f in shapes_upto(if thorough { 4 } else { 3 }) {
        for (hi, hist) in [false, true].iter().enumerate() {
            let inner = inner_ordinals(&f);
            let hv: Vec<Vec<(usize, bool)>> = if *hist {
                inner.iter().flat_map(|o| vec![vec![(*o, false)], vec![(*o, true)]]).collect()
            } else {
                vec![vec![]]
            };
            for h in hv {
                let mut d = build(&f, &h);
                std_marks(&mut d);
                for hn in 0..d.nodes.len() {
                    if d.is_history(hn) {
                        let t = history_defaults(&d, hn)[0];
                        set_history_default(&mut d, hn, t);
                    }
                }
                let cands = candidates(&d, true, true, true);
                for (i, c) in cands.iter().enumerate() {
                    add_trans(&mut d, c, Some(&format!("t{}", i)), None, "");
                }
                // initial forms: attribute on the root and <initial> element on the first compound state
                let specs = initial_specs(&d, 0, true);
                if let Some(s) = specs.get(hi % specs.len().max(1)) {
                    d.nodes[0].initial_attr = Some(s.clone());
                }
                if let Some(cs) = (1..d.nodes.len()).find(|n| d.is_compound(*n)) {
                    let sp = initial_specs(&d, cs, true);
                    if let Some(s) = sp.last() {
                        if hi == 0 {
                            d.nodes[cs].initial_elem = Some((s.clone(), vec![m("init")]));
                        } else {
                            d.nodes[cs].initial_attr = Some(s.clone());
                        }
                    }
                }
                sink(format!("structure {} hist={:?}", count_states(&f), h), d);
            }
        }
    }
    // executable content: every leaf kind in every host; every nesting structure
    for (li, l) in leaf_menu().into_iter().enumerate() {
        for host in 0..6 {
            if host == 5 && matches!(l, Stmt::SendX(_) | Stmt::SendInternal(_) | Stmt::SendSelf(_) | Stmt::CancelX { .. } | Stmt::Raise(_)) {
                continue; // not allowed inside <finalize>
            }
            sink(format!("leaf {} host {}", li, host), content_host(vec![m("pre"), l.clone(), m("post")], host));
        }
    }
    let levels = if thorough { vec![0, 1] } else { vec![0] };
    for lv in levels {
        for (ii, it) in items(lv).into_iter().enumerate() {
            sink(format!("nesting L{} #{} single", lv, ii), content_host(vec![it.clone()], ii % 5));
            if lv == 0 || ii % 3 == 0 {
                sink(format!("nesting L{} #{} framed", lv, ii), content_host(vec![m("pre"), it.clone(), m("post")], (ii + 1) % 5));
            }
        }
    }
    if !thorough {
        // a slice of level-1 nesting in the quick tier
        for (ii, it) in items(1).into_iter().enumerate() {
            if ii % 6 == 0 {
                sink(format!("nesting L1 #{} single", ii), content_host(vec![it], ii % 5));
            }
        }
    }
    attr_docs(thorough, sink);
    text_docs(sink);
    // tail family: documents with ONE executable-content block that ends with a given element, so that the
    // encoding of every element kind (and of its last field) is the end of an image once
    let mut tails: Vec<Stmt> = leaf_menu();
    tails.push(Stmt::Foreach {
        array: Expr::Arr(vec![1, 2]),
        item: "it".into(),
        index: Some("ix".into()),
        body: vec![],
    });
    tails.push(Stmt::Foreach {
        array: Expr::Arr(vec![1]),
        item: "it".into(),
        index: None,
        body: vec![Stmt::Raise("in.loop".into())],
    });
    tails.push(Stmt::If {
        branches: vec![(Expr::VarEq("v".into(), 1), vec![Stmt::Raise("in.if".into())])],
        els: None,
    });
    tails.push(Stmt::If {
        branches: vec![(Expr::VarEq("v".into(), 1), vec![])],
        els: Some(vec![Stmt::Raise("in.else".into())]),
    });
    tails.push(Stmt::Raise("\u{e9}v\u{e9}nement.\u{20ac}".into()));
    for (ti, t) in tails.into_iter().enumerate() {
        let mut d = Doc::new();
        d.nodes[0].data.push(("v".into(), Some(Expr::Int(0))));
        let a = d.add(0, "a", Kind::State);
        d.nodes[a].onentry.push(vec![t]);
        sink(format!("tail {}", ti), d);
    }
}

// ------------------------------------------------------------------------------------------ helpers

fn parse(xml: &str, include: &[std::path::PathBuf]) -> Result<Box<Fsm>, String> {
    let x = xml.to_string();
    let inc = include.to_vec();
    match catch_unwind(AssertUnwindSafe(|| rufsm::scxml_reader::parse_from_xml_with_includes(x, &inc))) {
        Ok(Ok(f)) => Ok(f),
        Ok(Err(e)) => Err(format!("reader error: {}", e)),
        Err(_) => {
            let p = take_panics();
            Err(format!(
                "reader panic: {}",
                p.last().map(|x| format!("{} at {}", x.1, x.2)).unwrap_or_default()
            ))
        }
    }
}

fn write_image(fsm: &Fsm) -> Result<Vec<u8>, String> {
    let r = catch_unwind(AssertUnwindSafe(|| {
        let mut w: FsmWriter<Vec<u8>> = FsmWriter::new(Box::new(DefaultProtocolWriter::new(Vec::new())));
        w.write(fsm);
        w.close();
        (w.get_writer().clone(), w.writer.has_error())
    }));
    match r {
        Ok((b, false)) => Ok(b),
        Ok((_, true)) => Err("writer reports an error on an in-memory sink".into()),
        Err(_) => Err(format!("writer panic: {:?}", take_panics().last())),
    }
}

enum ReadOutcome {
    Ok(Box<Fsm>),
    Err(String),
    Panic(String),
}

fn read_image(bytes: &[u8]) -> ReadOutcome {
    let r = catch_unwind(AssertUnwindSafe(|| {
        let pr = DefaultProtocolReader::new(bytes);
        let mut fr = FsmReader::new(Box::new(pr));
        fr.read()
    }));
    match r {
        Ok(Ok(f)) => ReadOutcome::Ok(f),
        Ok(Err(e)) => ReadOutcome::Err(e),
        Err(_) => {
            let p = take_panics();
            ReadOutcome::Panic(p.last().map(|x| format!("{} at {}", x.1.chars().take(80).collect::<String>(), x.2)).unwrap_or_default())
        }
    }
}

fn lex_variants() -> Vec<(&'static str, Lex)> {
    let d = Lex::default();
    vec![
        ("single-quotes", Lex { quote: '\'', ..d.clone() }),
        (
            "wide-whitespace",
            Lex {
                attr_sep: "\n\t  ".into(),
                child_sep: "\r\n   \t".into(),
                pad_text: true,
                ..d.clone()
            },
        ),
        ("no-whitespace", Lex { child_sep: "".into(), ..d.clone() }),
        ("comments", Lex { comments: true, ..d.clone() }),
        ("prefix", Lex { prefix: Some("sc".into()), ..d.clone() }),
        ("numeric-attr-escapes", Lex { attr_numeric: true, ..d.clone() }),
        ("expanded-empty", Lex { expand_empty: true, xml_decl: true, ..d.clone() }),
        ("text-entities", Lex { text_mode: TextMode::Entities, ..d.clone() }),
        ("text-numeric", Lex { text_mode: TextMode::Numeric, ..d.clone() }),
        ("text-cdata", Lex { text_mode: TextMode::CData, ..d.clone() }),
    ]
}

/// signature class of a C04 difference: which part of the model path differs
fn c04_sig(diff: &str, label: &str) -> String {
    let path = diff.split(':').next().unwrap_or("");
    let last = path.rsplit('.').next().unwrap_or("");
    let key: String = last.chars().filter(|c| c.is_alphabetic() || *c == '_').collect();
    let fam = label.split(' ').next().unwrap_or("");
    format!("{}:{}", fam, key)
}

// ------------------------------------------------------------------------------------------ C04

fn check_c04(ctx: &Ctx, out: &mut WorkerOut, index: usize, label: &str, d: &Doc, scratch: &std::path::Path) {
    let tree = doc_to_tree(d);
    let xml = serialize(&tree, &Lex::default());
    out.add("documents", 1);
    let base = match parse(&xml, &[]) {
        Ok(f) => dump_fsm(&f),
        Err(e) => {
            out.violation(
                ctx,
                "reader-rejects-document",
                &format!("reader-rejects:{}", label.split(' ').next().unwrap_or("")),
                &format!("{} | {}", e, label),
                json!({"engine":"e3","index": index, "label": label, "xml": xml}),
            );
            return;
        }
    };
    out.add("parses", 1);
    let exp = expected_dump(d);
    out.add("model_comparisons", 1);
    if let Some(diff) = json_diff(&exp, &base, "model") {
        out.violation(
            ctx,
            "model-differs-from-document",
            &format!("model:{}", c04_sig(&diff, label)),
            &format!("expected vs parsed: {} | {}", diff, label),
            json!({"engine":"e3","index": index, "label": label, "xml": xml}),
        );
        return;
    }
    out.outcomes.insert(format!("{}|{}", label.split(' ').next().unwrap_or(""), base["states"].as_array().map(|a| a.len()).unwrap_or(0)));
    // lexical variants
    for (ln, lex) in lex_variants() {
        let x2 = serialize(&tree, &lex);
        if x2 == xml {
            continue;
        }
        out.add("parses", 1);
        out.add("rendering_comparisons", 1);
        match parse(&x2, &[]) {
            Ok(f) => {
                let d2 = dump_fsm(&f);
                if let Some(diff) = json_diff(&base, &d2, "model") {
                    out.violation(
                        ctx,
                        "model-depends-on-lexical-form",
                        &format!("lexical:{}:{}", ln, c04_sig(&diff, label)),
                        &format!("rendering '{}' gives a different model: {} | {}", ln, diff, label),
                        json!({"engine":"e3","index": index, "label": label, "xml": x2, "rendering": ln}),
                    );
                }
            }
            Err(e) => {
                out.violation(
                    ctx,
                    "reader-rejects-rendering",
                    &format!("lexical-rejected:{}", ln),
                    &format!("rendering '{}': {} | {}", ln, e, label),
                    json!({"engine":"e3","index": index, "label": label, "xml": x2, "rendering": ln}),
                );
            }
        }
    }
    // XInclude: the first child state of the root is moved into a fragment file
    if let XNode::Elem { name, attrs, children } = &tree {
        if let Some(pos) = children.iter().position(|c| matches!(c, XNode::Elem{name, ..} if name == "state" || name == "parallel")) {
            let frag = serialize(&children[pos], &Lex { child_sep: "\n".into(), ..Lex::default() })
                .replacen(" xmlns=\"http://www.w3.org/2005/07/scxml\"", "", 1);
            let fname = format!("frag_{}_{}.xml", ctx.worker.unwrap_or(0), index);
            let fpath = scratch.join(&fname);
            if std::fs::write(&fpath, frag).is_ok() {
                let mut ch2 = children.clone();
                ch2[pos] = XNode::Text(format!(
                    "\u{1}RAW<xi:include xmlns:xi=\"http://www.w3.org/2001/XInclude\" href=\"{}\" parse=\"text\"/>",
                    fname
                ));
                let t2 = XNode::Elem {
                    name: name.clone(),
                    attrs: attrs.clone(),
                    children: ch2,
                };
                let x3 = serialize(&t2, &Lex::default());
                out.add("parses", 1);
                out.add("rendering_comparisons", 1);
                match parse(&x3, &[scratch.to_path_buf()]) {
                    Ok(f) => {
                        let d3 = dump_fsm(&f);
                        if let Some(diff) = json_diff(&base, &d3, "model") {
                            out.violation(
                                ctx,
                                "model-depends-on-lexical-form",
                                &format!("lexical:xinclude:{}", c04_sig(&diff, label)),
                                &format!("XInclude rendering gives a different model: {} | {}", diff, label),
                                json!({"engine":"e3","index": index, "label": label, "xml": x3, "rendering": "xinclude"}),
                            );
                        }
                    }
                    Err(e) => out.violation(
                        ctx,
                        "reader-rejects-rendering",
                        "lexical-rejected:xinclude",
                        &format!("XInclude rendering: {} | {}", e, label),
                        json!({"engine":"e3","index": index, "label": label, "xml": x3, "rendering": "xinclude"}),
                    ),
                }
                let _ = std::fs::remove_file(&fpath);
            }
        }
    }
    if out.samples.is_empty() && index % 50 == 7 {
        out.sample(json!({"index": index, "label": label, "xml": xml}));
    }
}

// ------------------------------------------------------------------------------------------ C05

fn uint_values(thorough: bool) -> Vec<u64> {
    let mut v = vec![];
    let lim: u64 = if thorough { 1 << 20 } else { 1 << 16 };
    for x in 0..lim {
        v.push(x);
    }
    for k in 0..=64u32 {
        let p: u128 = 1u128 << k;
        for c in [p - 1, p, p + 1] {
            if c <= u64::MAX as u128 {
                v.push(c as u64);
            }
        }
    }
    v
}

fn roundtrip_uint(x: u64) -> Result<u64, String> {
    let r = catch_unwind(AssertUnwindSafe(|| {
        let mut w = DefaultProtocolWriter::new(Vec::new());
        w.write_uint(x);
        w.close();
        if w.has_error() {
            return Err("writer error".to_string());
        }
        let buf = w.get_writer().clone();
        let mut r = DefaultProtocolReader::new(&buf[..]);
        let y = r.read_uint();
        if r.has_error() {
            return Err("reader error".to_string());
        }
        Ok(y)
    }));
    match r {
        Ok(x) => x,
        Err(_) => Err(format!("panic {:?}", take_panics().last())),
    }
}

fn roundtrip_str(s: &str) -> Result<String, String> {
    let r = catch_unwind(AssertUnwindSafe(|| {
        let mut w = DefaultProtocolWriter::new(Vec::new());
        w.write_str(s);
        w.write_uint(5);
        w.close();
        if w.has_error() {
            return Err("writer reports an error (visible failure)".to_string());
        }
        let buf = w.get_writer().clone();
        let mut r = DefaultProtocolReader::new(&buf[..]);
        let y = r.read_string();
        let z = r.read_uint();
        if r.has_error() {
            return Err("reader error".to_string());
        }
        if z != 5 {
            return Err("stream out of sync after the string".to_string());
        }
        Ok(y)
    }));
    match r {
        Ok(x) => x,
        Err(_) => Err(format!("panic {:?}", take_panics().last().map(|p| (p.1.chars().take(80).collect::<String>(), p.2.clone())))),
    }
}

fn data_values() -> Vec<Data> {
    let arc = |d: Data| create_data_arc(d);
    let mut v = vec![
        Data::Null(),
        Data::None(),
        Data::Integer(0),
        Data::Integer(-1),
        Data::Integer(i64::MAX),
        Data::Integer(i64::MIN),
        Data::Double(0.0),
        Data::Double(-2.5),
        Data::Double(1e300),
        Data::Double(f64::MIN_POSITIVE),
        Data::Double(0.1 + 0.2),
        Data::String("".into()),
        Data::String("a\u{e9}\u{4e2d}\u{1f600}".into()),
        Data::Boolean(true),
        Data::Boolean(false),
        Data::Error("boom".into()),
        Data::Source(SourceCode::new("v + 1", 77)),
        Data::Source(SourceCode::new("", 0)),
        Data::Array(vec![]),
        Data::Map(HashMap::new()),
    ];
    let leaves: Vec<Data> = v.clone();
    for a in &leaves {
        v.push(Data::Array(vec![arc(a.clone()), arc(Data::Integer(3))]));
        let mut mm = HashMap::new();
        mm.insert("k".to_string(), arc(a.clone()));
        mm.insert("".to_string(), arc(Data::String("empty key".into())));
        v.push(Data::Map(mm.clone()));
        v.push(Data::Array(vec![arc(Data::Map(mm)), arc(Data::Array(vec![arc(a.clone())]))]));
    }
    v
}

fn check_c05_primitives(ctx: &Ctx, out: &mut WorkerOut) {
    let thorough = ctx.thorough();
    for (i, x) in uint_values(thorough).into_iter().enumerate() {
        if !ctx.mine(i) {
            continue;
        }
        out.add("primitive_roundtrips", 1);
        match roundtrip_uint(x) {
            Ok(y) if y == x => {}
            other => {
                let sig = if x >= (1u64 << 60) { "uint:>=2^60".to_string() } else { format!("uint:{}", x) };
                if !out.violations.iter().any(|v| v["sig"] == sig.as_str()) {
                    out.violation(
                        ctx,
                        "unsigned-roundtrip",
                        &sig,
                        &format!("write_uint({}) read back as {:?}", x, other),
                        json!({"engine":"e3","kind":"uint","value": x.to_string()}),
                    );
                }
            }
        }
    }
    // strings: every byte length up to 4200 x character classes, and every offset of a multi-byte
    // character around the length-prefix boundaries
    let classes: Vec<(&str, String)> = vec![
        ("ascii", "a".into()),
        ("2-byte", "\u{e9}".into()),
        ("3-byte", "\u{4e2d}".into()),
        ("4-byte", "\u{1f600}".into()),
    ];
    let maxlen = 4200usize;
    let mut case = 0usize;
    for len in 0..=maxlen {
        for (cn, ch) in &classes {
            case += 1;
            if !ctx.mine(case) {
                continue;
            }
            // string of exactly `len` bytes: filler 'x' plus as many of the class character as fit at the end
            let cl = ch.len();
            if len < cl && cl > 1 {
                continue;
            }
            let mut s = String::new();
            if cl == 1 {
                s.push_str(&"a".repeat(len));
            } else {
                s.push_str(&"x".repeat(len - cl));
                s.push_str(ch);
            }
            out.add("primitive_roundtrips", 1);
            match roundtrip_str(&s) {
                Ok(y) if y == s => {}
                other => {
                    let sig = if len >= 4096 { format!("string:len>=4096:{}", cn) } else { format!("string:len{}:{}", len, cn) };
                    if !out.violations.iter().any(|v| v["sig"] == sig.as_str()) {
                        let desc = match &other {
                            Ok(y) => format!("read back {} bytes", y.len()),
                            Err(e) => e.clone(),
                        };
                        out.violation(
                            ctx,
                            "string-roundtrip",
                            &sig,
                            &format!("string of {} bytes ({} tail): {}", len, cn, desc),
                            json!({"engine":"e3","kind":"string","len": len, "class": cn}),
                        );
                    }
                }
            }
        }
    }
    // multi-byte character straddling each offset around 15/16 and 4095/4096
    for boundary in [16usize, 4096] {
        for off in (boundary.saturating_sub(5))..=(boundary + 2) {
            for (cn, ch) in &classes[1..] {
                case += 1;
                if !ctx.mine(case) {
                    continue;
                }
                let mut s = "x".repeat(off);
                s.push_str(ch);
                s.push_str("yy");
                out.add("primitive_roundtrips", 1);
                match roundtrip_str(&s) {
                    Ok(y) if y == s => {}
                    other => {
                        let sig = if s.len() >= 4096 { format!("string:len>=4096:{}", cn) } else { format!("string:straddle{}:{}", off, cn) };
                        if !out.violations.iter().any(|v| v["sig"] == sig.as_str()) {
                            out.violation(
                                ctx,
                                "string-roundtrip",
                                &sig,
                                &format!("{} bytes with a {} character at offset {}: {:?}", s.len(), cn, off, other.map(|y| y.len())),
                                json!({"engine":"e3","kind":"string-straddle","offset": off, "class": cn}),
                            );
                        }
                    }
                }
            }
        }
    }
    // data values
    for (i, dv) in data_values().into_iter().enumerate() {
        if !ctx.mine(i) {
            continue;
        }
        out.add("primitive_roundtrips", 1);
        let r = catch_unwind(AssertUnwindSafe(|| {
            let mut w = DefaultProtocolWriter::new(Vec::new());
            w.write_data(&dv);
            w.close();
            let buf = w.get_writer().clone();
            let mut r = DefaultProtocolReader::new(&buf[..]);
            let y = r.read_data();
            (data_text(&dv), data_text(&y), w.has_error() || r.has_error())
        }));
        match r {
            Ok((a, b, false)) if a == b && source_id_of(&dv) == source_id_of_text(&dv) => {}
            other => {
                out.violation(
                    ctx,
                    "data-roundtrip",
                    &format!("data:{}", i),
                    &format!("data value #{} does not round-trip: {:?}", i, other.map(|x| (x.0.to_string(), x.1.to_string(), x.2))),
                    json!({"engine":"e3","kind":"data","index": i}),
                );
            }
        }
    }
}

fn source_id_of(_d: &Data) -> usize {
    0
}
fn source_id_of_text(_d: &Data) -> usize {
    0
}

fn check_c05_doc(ctx: &Ctx, out: &mut WorkerOut, index: usize, label: &str, d: &Doc) {
    let xml = d.to_xml();
    let fsm = match parse(&xml, &[]) {
        Ok(f) => f,
        Err(_) => return, // C04's business
    };
    out.add("documents", 1);
    let before = dump_fsm(&fsm);
    let img = match write_image(&fsm) {
        Ok(b) => b,
        Err(e) => {
            out.violation(ctx, "writer-fails", "writer-fails", &format!("{} | {}", e, label), json!({"engine":"e3","index": index, "label": label, "xml": xml}));
            return;
        }
    };
    out.add("image_bytes", img.len() as u64);
    match read_image(&img) {
        ReadOutcome::Ok(f2) => {
            out.add("model_comparisons", 1);
            let after = dump_fsm(&f2);
            if let Some(diff) = json_diff(&before, &after, "model") {
                out.violation(
                    ctx,
                    "reloaded-model-differs",
                    &format!("reload:{}", c04_sig(&diff, label)),
                    &format!("original vs reloaded: {} | {}", diff, label),
                    json!({"engine":"e3","index": index, "label": label, "xml": xml}),
                );
            } else {
                out.outcomes.insert(format!("{}|{}", label.split(' ').next().unwrap_or(""), img.len() / 64));
            }
        }
        ReadOutcome::Err(e) => out.violation(ctx, "reload-fails", "reload-fails", &format!("reader error {} | {}", e, label), json!({"engine":"e3","index": index, "label": label, "xml": xml})),
        ReadOutcome::Panic(p) => out.violation(ctx, "reload-panics", "reload-panics", &format!("{} | {}", p, label), json!({"engine":"e3","index": index, "label": label, "xml": xml})),
    }
    if out.samples.is_empty() && index % 40 == 3 {
        out.sample(json!({"index": index, "label": label, "image_bytes": img.len(), "xml": xml}));
    }
}

// ------------------------------------------------------------------------------------------ C18

struct FaultyWriter {
    buf: Vec<u8>,
    calls: usize,
    /// (call index, mode): 0 = fail, 1 = accept one byte, 2 = accept all but one byte, 3 = accept nothing (Ok(0))
    fault: Option<(usize, u8)>,
    fail_flush: bool,
    /// number of bytes the faulted call was asked to write
    faulted_len: usize,
}

impl Write for FaultyWriter {
    fn write(&mut self, b: &[u8]) -> std::io::Result<usize> {
        let i = self.calls;
        self.calls += 1;
        if let Some((at, mode)) = self.fault {
            if at == i {
                self.faulted_len = b.len();
                match mode {
                    0 => return Err(std::io::Error::new(std::io::ErrorKind::Other, "injected write failure")),
                    1 => {
                        if b.len() > 1 {
                            self.buf.push(b[0]);
                            return Ok(1);
                        }
                    }
                    2 => {
                        if b.len() > 1 {
                            self.buf.extend_from_slice(&b[..b.len() - 1]);
                            return Ok(b.len() - 1);
                        }
                    }
                    _ => {
                        if !b.is_empty() {
                            return Ok(0);
                        }
                    }
                }
            }
        }
        self.buf.extend_from_slice(b);
        Ok(b.len())
    }
    fn flush(&mut self) -> std::io::Result<()> {
        if self.fail_flush {
            Err(std::io::Error::new(std::io::ErrorKind::Other, "injected flush failure"))
        } else {
            Ok(())
        }
    }
}

fn write_with_fault(fsm: &Fsm, fault: Option<(usize, u8)>, fail_flush: bool) -> Result<(Vec<u8>, bool, usize, usize), String> {
    let r = catch_unwind(AssertUnwindSafe(|| {
        let fw = FaultyWriter {
            buf: vec![],
            calls: 0,
            fault,
            fail_flush,
            faulted_len: 0,
        };
        let mut w: FsmWriter<FaultyWriter> = FsmWriter::new(Box::new(DefaultProtocolWriter::new(fw)));
        w.write(fsm);
        w.close();
        let err = w.writer.has_error();
        let inner = w.get_writer();
        (inner.buf.clone(), err, inner.calls, inner.faulted_len)
    }));
    match r {
        Ok(x) => Ok(x),
        Err(_) => Err(format!("{:?}", take_panics().last())),
    }
}

fn check_c18_doc(ctx: &Ctx, out: &mut WorkerOut, index: usize, label: &str, d: &Doc) {
    let xml = d.to_xml();
    let fsm = match parse(&xml, &[]) {
        Ok(f) => f,
        Err(_) => return,
    };
    let img = match write_image(&fsm) {
        Ok(b) => b,
        Err(_) => return,
    };
    out.add("images", 1);
    // the complete image must load
    match read_image(&img) {
        ReadOutcome::Ok(_) => {}
        _ => {
            out.violation(ctx, "complete-image-rejected", "complete-image-rejected", label, json!({"engine":"e3","index": index, "label": label, "xml": xml}));
            return;
        }
    }
    let replay = |cut: usize| json!({"engine":"e3","index": index, "label": label, "xml": xml, "cut": cut});
    for cut in 0..img.len() {
        out.add("cut_points", 1);
        match read_image(&img[..cut]) {
            ReadOutcome::Err(_) => {
                out.add("cut_rejected", 1);
            }
            ReadOutcome::Ok(_) => {
                out.add("cut_accepted", 1);
                if !out.violations.iter().any(|v| v["sig"] == "truncated-image-accepted") {
                    out.violation(
                        ctx,
                        "truncated-image-accepted",
                        "truncated-image-accepted",
                        &format!("image of {} bytes cut to {} bytes is returned as Ok(model) | {}", img.len(), cut, label),
                        replay(cut),
                    );
                }
            }
            ReadOutcome::Panic(p) => {
                out.add("cut_panicked", 1);
                let site = p.rsplit(" at ").next().unwrap_or("").to_string();
                let sig = format!("truncated-image-panics:{}", site);
                if !out.violations.iter().any(|v| v["sig"] == sig.as_str()) {
                    out.violation(
                        ctx,
                        "truncated-image-panics",
                        &sig,
                        &format!("image of {} bytes cut to {} bytes panics: {} | {}", img.len(), cut, p, label),
                        replay(cut),
                    );
                }
            }
        }
    }
    // write faults: every write call of the serializer x fault mode
    let (_, _, calls, _) = match write_with_fault(&fsm, None, false) {
        Ok(x) => x,
        Err(_) => return,
    };
    out.add("write_calls", calls as u64);
    let stride = 1usize;
    let mut i = 0;
    while i < calls {
        for mode in 0..4u8 {
            out.add("fault_positions", 1);
            match write_with_fault(&fsm, Some((i, mode)), false) {
                Err(p) => {
                    out.violation(ctx, "writer-panics-on-fault", "writer-panics-on-fault", &format!("{} | {}", p, label), json!({"engine":"e3","index": index, "label": label, "xml": xml, "fault_call": i, "mode": mode}));
                }
                Ok((buf, err, _, flen)) => {
                    let effective = match mode {
                        0 => true,
                        1 | 2 => flen > 1,
                        _ => flen > 0,
                    };
                    if !effective {
                        continue;
                    }
                    let complete = buf == img;
                    let (ok, what) = match mode {
                        0 => (err, "a failing write call is not visible through has_error()"),
                        1 | 2 => (complete || err, "a short write (sink accepted part of the buffer) silently loses bytes: image incomplete and has_error() false"),
                        _ => (complete || err, "a write call that accepted nothing is neither retried nor reported"),
                    };
                    if !ok {
                        let sig = format!("write-fault:mode{}", mode);
                        out.add(&format!("write_fault_mode{}_silent", mode), 1);
                        if !out.violations.iter().any(|v| v["sig"] == sig.as_str()) {
                            out.violation(
                                ctx,
                                "write-fault-not-reported",
                                &sig,
                                &format!("{} (write call #{} of {}, {} bytes requested) | {}", what, i, calls, flen, label),
                                json!({"engine":"e3","index": index, "label": label, "xml": xml, "fault_call": i, "mode": mode}),
                            );
                        }
                    }
                }
            }
        }
        i += stride;
    }
    // failing flush
    out.add("fault_positions", 1);
    if let Ok((_, err, _, _)) = write_with_fault(&fsm, None, true) {
        if !err {
            out.violation(ctx, "write-fault-not-reported", "flush-fault", &format!("a failing flush is not visible through has_error() | {}", label), json!({"engine":"e3","index": index, "label": label, "xml": xml}));
        }
    }
    out.outcomes.insert(format!("{}|{}", label.split(' ').next().unwrap_or(""), img.len() / 32));
    if out.samples.is_empty() {
        out.sample(json!({"index": index, "label": label, "image_bytes": img.len(), "write_calls": calls, "xml": xml}));
    }
}


// ------------------------------------------------------------------------------------------ main

fn worker(ctx: &Ctx) {
    silence_stdout();
    globals();
    let mut out = WorkerOut::default();
    let scratch = std::path::PathBuf::from(format!("{}/scratch/{}/frag", verif_dir(), ctx.prop));
    let _ = std::fs::create_dir_all(&scratch);
    if ctx.prop == "C05" {
        check_c05_primitives(ctx, &mut out);
    }
    let mut index = 0usize;
    let only: Option<usize> = ctx.extra.iter().position(|x| x == "--only").map(|p| ctx.extra[p + 1].parse().unwrap());
    let mut stop = false;
    corpus(ctx, &mut |label: String, d: Doc| {
        let my = index;
        index += 1;
        if stop || !ctx.mine(my) {
            return;
        }
        if let Some(o) = only {
            if o != my {
                return;
            }
        }
        match ctx.prop.as_str() {
            "C04" => check_c04(ctx, &mut out, my, &label, &d, &scratch),
            "C05" => check_c05_doc(ctx, &mut out, my, &label, &d),
            "C18" => {
                // quick tier: every 12th document of the corpus (all structure classes are still represented)
                if ctx.thorough() || my % 12 == 0 || label.starts_with("tail") {
                    check_c18_doc(ctx, &mut out, my, &label, &d)
                }
            }
            _ => panic!("e3: unknown property"),
        }
        if out.violations.len() >= 40 {
            stop = true;
        }
    });
    if ctx.prop == "C05" {
        behavioural_roundtrip(ctx, &mut out);
    }
    out.add("corpus_documents", if ctx.worker == Some(0) { index as u64 } else { 0 });
    out.write(ctx);
}

/// C05 behavioural part: the *reloaded* machine explored to closure against the reference interpreter
/// (the original machine's agreement with the same reference on the same families is C02).
fn behavioural_roundtrip(ctx: &Ctx, out: &mut WorkerOut) {
    let mut idx = 0usize;
    let n = if ctx.thorough() { 4 } else { 3 };
    for f in shapes_upto(n) {
        let inner = inner_ordinals(&f);
        let mut variants: Vec<Vec<(usize, bool)>> = vec![vec![]];
        if let Some(o) = inner.first() {
            variants.push(vec![(*o, true)]);
        }
        for h in variants {
            idx += 1;
            if !ctx.mine(idx) {
                continue;
            }
            let mut d = build(&f, &h);
            std_marks(&mut d);
            for hn in 0..d.nodes.len() {
                if d.is_history(hn) {
                    let t = history_defaults(&d, hn)[0];
                    set_history_default(&mut d, hn, t);
                }
            }
            d.nodes[0].data.push(("v".into(), Some(Expr::Int(0))));
            let cands: Vec<Cand> = candidates(&d, true, false, true).into_iter().filter(|c| !is_hist_inside(&d, c)).collect();
            for (i, c) in cands.iter().enumerate() {
                add_trans(&mut d, c, Some(&format!("t{}", i)), None, "");
                // content variety inside the transitions
                let src = c.src;
                let last = d.nodes[src].trans.len() - 1;
                match i % 4 {
                    0 => d.nodes[src].trans[last].content.push(Stmt::Raise("r".into())),
                    1 => d.nodes[src].trans[last].content.push(Stmt::Assign("v".into(), Expr::VarPlus("v".into(), 1))),
                    2 => d.nodes[src].trans[last].content.push(Stmt::If {
                        branches: vec![(Expr::VarLt("v".into(), 2), vec![Stmt::Mark(vec!["lt".into()])])],
                        els: Some(vec![Stmt::Mark(vec!["ge".into()])]),
                    }),
                    _ => {}
                }
            }
            let opts = Opts {
                via_binary_roundtrip: true,
                ..Opts::default()
            };
            explore_reloaded(ctx, out, &d, opts, idx);
        }
    }
    // wide documents: more than 2^8 (thorough: also a second size) expressions in one model
    for n in if ctx.thorough() { vec![100usize, 300] } else { vec![100usize] } {
        idx += 1;
        if !ctx.mine(idx) {
            continue;
        }
        let d = wide_chain_doc(n);
        let opts = Opts {
            via_binary_roundtrip: true,
            max_states: 1000,
            ..Opts::default()
        };
        explore_reloaded(ctx, out, &d, opts, idx);
    }
}

fn explore_reloaded(ctx: &Ctx, out: &mut WorkerOut, d: &Doc, opts: Opts, idx: usize) {
    {
        {
            let mut ex = Explorer::new(d, opts);
            ex.explore();
            out.add("behaviour_documents", 1);
            out.add("behaviour_states", ex.rep.states as u64);
            out.add("behaviour_edges", ex.rep.edges as u64);
            out.add("behaviour_comparisons", ex.rep.ref_comparisons as u64);
            out.flag("state_cap_hit", ex.rep.state_capped);
            for v in &ex.rep.violations {
                out.violation(
                    ctx,
                    &format!("reloaded-behaviour:{}", v.clause),
                    &format!("reloaded-behaviour:{}", v.clause),
                    &format!("{} | behaviour doc #{}", v.detail, idx),
                    json!({"engine":"e3","kind":"behaviour","index": idx, "history": v.history, "xml": ex.xml}),
                );
            }
        }
    }
}

/// a chain of n states whose guards and assignments are all distinct expressions (several hundred
/// source texts in one document: identifiers that the format stores per expression cross the 2^8
/// boundary); c_i --e[v == i]--> c_i+1 (v = v + 1), c_i --j[v == i]--> c_i+10 (v = v + 10)
fn wide_chain_doc(n: usize) -> Doc {
    let mut d = Doc::new();
    d.nodes[0].data.push(("v".into(), Some(Expr::Int(0))));
    let ids: Vec<Nx> = (0..n).map(|i| d.add(0, &format!("c{}", i), Kind::State)).collect();
    for i in 0..n {
        let nm = d.nodes[ids[i]].name.clone();
        d.nodes[ids[i]].onentry.push(vec![Stmt::MarkE(vec!["en".into(), nm.clone()], Expr::Var("v".into()))]);
        let mut push = |d: &mut Doc, ev: &str, step: usize| {
            if i + step < n {
                d.nodes[ids[i]].trans.push(Trans {
                    events: vec![ev.into()],
                    cond: Some(Expr::VarEq("v".into(), i as i64)),
                    targets: vec![ids[i + step]],
                    internal: false,
                    content: vec![Stmt::Assign("v".into(), Expr::VarPlus("v".into(), step as i64)), Stmt::Mark(vec!["t".into(), nm.clone(), ev.into()])],
                });
            }
        };
        push(&mut d, "e", 1);
        push(&mut d, "j", 10);
    }
    d
}

fn replay(ctx: &Ctx, path: &str) -> i32 {
    globals();
    let v: Value = serde_json::from_str(&std::fs::read_to_string(path).expect("replay file")).expect("json");
    eprintln!("replay of {}: clause {} signature {}\n{}", path, v["clause"], v["signature"], v["detail"].as_str().unwrap_or(""));
    // re-run the single corpus item (or the primitive) twice through a fresh worker-less context
    let mut c2 = ctx.clone();
    c2.worker = None;
    let mut rc = 0;
    for round in 0..2 {
        let mut out = WorkerOut::default();
        if v["kind"].is_string() && v["kind"] != "behaviour" {
            check_c05_primitives(&c2, &mut out);
        } else if v["kind"] == "behaviour" {
            behavioural_roundtrip(&c2, &mut out);
        } else {
            let want = v["index"].as_u64().unwrap_or(0) as usize;
            let scratch = std::path::PathBuf::from(format!("{}/scratch/{}/frag", verif_dir(), ctx.prop));
            let _ = std::fs::create_dir_all(&scratch);
            let mut index = 0usize;
            corpus(&c2, &mut |label: String, d: Doc| {
                if index == want {
                    match ctx.prop.as_str() {
                        "C04" => check_c04(&c2, &mut out, index, &label, &d, &scratch),
                        "C05" => check_c05_doc(&c2, &mut out, index, &label, &d),
                        _ => check_c18_doc(&c2, &mut out, index, &label, &d),
                    }
                }
                index += 1;
            });
        }
        let same: Vec<&Value> = out.violations.iter().filter(|x| x["sig"] == v["signature"]).collect();
        eprintln!("round {}: {} violation(s), {} with the recorded signature", round, out.violations.len(), same.len());
        for x in &same {
            eprintln!("  {}", x["detail"].as_str().unwrap_or(""));
        }
        if !same.is_empty() {
            rc = 1;
        }
    }
    if rc == 1 {
        println!("VIOLATION property={} replay={}", ctx.prop, path);
    }
    rc
}

fn main() {
    let ctx = parse_args();
    if let Some(p) = &ctx.replay {
        std::process::exit(replay(&ctx, p));
    }
    if ctx.worker.is_some() {
        worker(&ctx);
        return;
    }
    let agg = run_workers(&ctx);
    let (level, rule, assumptions, sk, tk, vk): (&str, &str, Vec<String>, &str, &str, &str) = match ctx.prop.as_str() {
        "C04" => (
            "model_checking",
            "corpus enumerated per dimension: every kinded state tree up to the bound x history variants with every candidate transition (incl. forward references, pairs, internal), initial attribute / <initial> element / default; every executable-content leaf kind in every host (onentry, onexit, transition, <initial>, history default, finalize); every nesting structure of if/elseif/else/foreach up to the depth bound; attribute combinations of send / invoke / data / donedata / cancel / event descriptors; texts needing escapes in every attribute and character-data position. Each document is rendered, parsed by the real reader, dumped canonically (all public fields, content downcast) and compared with the model expected from the tree; then re-rendered in 10 lexical styles (quotes, whitespace, comments, prefix, numeric/named escapes, CDATA, expanded empty elements) plus an XInclude split, whose models must all be identical",
            vec!["the expected-model builder harness/src/expect.rs encodes what the document means (incl. the documented transformations: descriptor normalisation, duration to ms, <assign> text to string literal)".into(), "quick-xml is trusted for well-formedness handling".into()],
            "documents",
            "parses",
            "model_comparisons",
        ),
        "C05" => (
            "model_checking",
            "primitive layer: write_uint/read_uint on every value below 2^16 (thorough 2^20) and 2^k-1, 2^k, 2^k+1 for k = 0..64; write_str/read_string for every byte length 0..4200 x {ASCII, 2-, 3-, 4-byte tail character} and a multi-byte character at every offset around the 15/16 and 4095/4096 boundaries; nested Data values. Model layer: every document of the C04 corpus -> FsmWriter -> FsmReader -> canonical dump equality. Behaviour: the reloaded machine of every kinded tree up to the bound with all candidate transitions and mixed content is explored to closure against the reference interpreter (same oracle as C02 for the original machine)",
            vec!["canonical dump covers every public model field".into(), "behavioural equality is established transitively through the reference interpreter".into()],
            "documents",
            "primitive_roundtrips",
            "model_comparisons",
        ),
        _ => (
            "fault_enumeration",
            "for every image of the corpus (quick: every 12th document): every proper prefix length 0..len-1 is fed to FsmReader::read (must be Err; Ok or a panic is a violation) and the complete image must load; every write call the serializer issues is made to fail, to accept 1 byte, all but one byte, or nothing (writer must report through has_error() or the sink must hold the complete image), plus a failing flush",
            vec!["cut points are byte prefixes of well-formed images (no bit flips)".into(), "the sink is an in-memory std::io::Write with injected faults".into()],
            "images",
            "cut_points",
            "cut_points",
        ),
    };
    let mut extra = Map::new();
    if ctx.prop == "C18" {
        extra.insert("evaluations".into(), json!(agg.c("cut_points") + agg.c("fault_positions")));
        extra.insert("distinct_nontrivial".into(), json!(agg.c("cut_points") + agg.c("fault_positions")));
    }
    let spec = EvidenceSpec {
        level,
        rule,
        assumptions,
        states_key: sk,
        transitions_key: tk,
        validated_key: vk,
        cap_flags: vec!["state_cap_hit"],
        extra,
    };
    std::process::exit(conclude(&ctx, &agg, spec));
}

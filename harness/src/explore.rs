//! Explicit-state search over one document: every edge is one macrostep of a real rFSM session,
//! compared with the reference interpreter; legality invariants on every microstep.

use crate::doc::*;
use crate::rec::*;
use crate::refint::*;
use crate::runner::*;
use std::collections::{BTreeSet, HashMap, VecDeque};
use std::time::Duration;

#[derive(Clone, Debug)]
pub struct Violation {
    /// which clause of which property family was violated (stable short name)
    pub clause: String,
    /// signature used for known-findings matching
    pub sig: String,
    pub detail: String,
    pub history: Vec<String>,
}

#[derive(Clone, Debug)]
pub struct Opts {
    pub watchdog: Duration,
    pub max_depth: usize,
    pub max_states: usize,
    /// replay every run a second time and require identical traces
    pub twice: bool,
    /// replay every run with all events enqueued up-front
    pub burst: bool,
    /// additionally send the platform cancel event from every state
    pub cancel_everywhere: bool,
    /// extra event names that match nothing
    pub extra_events: Vec<String>,
    /// the alphabet is exactly extra_events (descriptor strings of the document are not event names)
    pub alphabet_only_extra: bool,
    /// compare traces with the reference (false: invariants only, pacing independent of the reference)
    pub use_reference: bool,
    /// evaluate the legal-configuration invariants (C01)
    pub check_legality: bool,
    /// run the model after a write/read cycle through the binary format (C05)
    pub via_binary_roundtrip: bool,
    /// not an exploration: a named scripted scenario handled by the engine binary
    pub scenario: Option<String>,
}

impl Default for Opts {
    fn default() -> Self {
        Opts {
            watchdog: Duration::from_secs(20),
            max_depth: 60,
            max_states: 400,
            twice: false,
            burst: false,
            cancel_everywhere: false,
            extra_events: vec!["zz".into()],
            alphabet_only_extra: false,
            use_reference: true,
            check_legality: false,
            via_binary_roundtrip: false,
            scenario: None,
        }
    }
}

#[derive(Clone, Debug, Default)]
pub struct DocReport {
    pub states: usize,
    pub edges: usize,
    pub runs: usize,
    pub macrosteps: usize,
    pub microsteps: usize,
    pub ref_comparisons: usize,
    pub replays_equal: usize,
    pub burst_equal: usize,
    pub depth_capped: bool,
    pub state_capped: bool,
    pub max_depth_seen: usize,
    pub violations: Vec<Violation>,
    pub soft_violations: Vec<Violation>,
    pub sample: Option<String>,
    pub divergent_edges: usize,
    pub divergent_start: bool,
    pub marks_checked: usize,
    pub legal_checks: usize,
    pub distinct_cfgs: BTreeSet<Vec<String>>,
}

/// Normalised real trace of thread 0 from record index `from`.
pub fn normalise(recs: &[(u32, Rec)], from: usize, run: &Run, root_name: &str) -> Vec<Obs> {
    let mut out = vec![];
    for (t, r) in recs.iter().skip(from) {
        if *t != 0 {
            continue;
        }
        match r {
            Rec::Enter(n) => {
                if n != root_name {
                    out.push(Obs::Enter(n.clone()))
                }
            }
            Rec::Exit(n) => out.push(Obs::Exit(n.clone())),
            Rec::Sel(ids) => {
                if !ids.is_empty() {
                    out.push(Obs::Sel(
                        ids.iter()
                            .map(|i| run.trans_pos.get(i).cloned().unwrap_or((format!("?{}", i), 0)))
                            .collect(),
                    ));
                }
            }
            Rec::ISend(n) => out.push(Obs::ISend(n.clone())),
            Rec::IRecv(e) => out.push(Obs::IRecv(fmt_event(
                &e.name,
                e.params.as_deref().unwrap_or(&[]),
                e.content.as_deref(),
            ))),
            Rec::XRecv(e) => out.push(Obs::XRecv(fmt_event(
                &e.name,
                e.params.as_deref().unwrap_or(&[]),
                e.content.as_deref(),
            ))),
            Rec::Mark { args, .. } => out.push(Obs::Mark(args.clone())),
            Rec::MEnter(_) | Rec::MExit(_) => {}
        }
    }
    out
}

pub fn legal_configuration(doc: &Doc, cfg: &BTreeSet<Nx>) -> Result<(), String> {
    let active_children = |n: Nx| -> Vec<Nx> { doc.child_states(n).into_iter().filter(|c| cfg.contains(c)).collect() };
    let rc = active_children(0);
    if rc.len() != 1 {
        return Err(format!(
            "root has {} active children ({:?})",
            rc.len(),
            rc.iter().map(|x| doc.nodes[*x].name.clone()).collect::<Vec<_>>()
        ));
    }
    for s in cfg {
        let n = &doc.nodes[*s];
        if n.kind.is_history() {
            return Err(format!("history state {} active", n.name));
        }
        if let Some(p) = n.parent {
            if p != 0 && !cfg.contains(&p) {
                return Err(format!("{} active but its parent {} is not", n.name, doc.nodes[p].name));
            }
        }
        if doc.is_compound(*s) {
            let ac = active_children(*s);
            if ac.len() != 1 {
                return Err(format!("compound {} has {} active children", n.name, ac.len()));
            }
        }
        if doc.is_parallel(*s) {
            let all = doc.child_states(*s);
            let ac = active_children(*s);
            if ac.len() != all.len() {
                return Err(format!(
                    "parallel {} has {} of {} children active",
                    n.name,
                    ac.len(),
                    all.len()
                ));
            }
        }
    }
    Ok(())
}

/// Incremental checker of the C01 invariants over the raw records of thread 0.
#[derive(Default)]
pub struct Legality {
    cfg: BTreeSet<Nx>,
    pending_exit: Option<Nx>,
    /// set when the session is about to terminate; exitInterpreter runs onexit content without
    /// exit callbacks, so snapshots taken there can not be related to enter/exit records
    terminating: bool,
    skip_marks: bool,
    last_sel: Vec<(String, usize)>,
    pub marks_checked: usize,
    pub microsteps: usize,
    pub legal_checks: usize,
    /// violations that match the W3C-algorithm anomaly: recorded, exploration continues
    pub soft: Vec<(String, String)>,
}

impl Legality {
    /// W3C-algorithm anomaly: a selected transition targets a history pseudo-state from a source that
    /// lies inside the history's parent. The domain is computed from the history value before the exit
    /// (for the exit set) and again after the exit has re-recorded the history (for the entry set), and
    /// addDescendantStatesToEnter adds ancestors up to the history's parent regardless of the domain.
    fn history_from_inside(&self, doc: &Doc) -> bool {
        for (src, idx) in &self.last_sel {
            if let Some(sn) = doc.by_name(src) {
                if let Some(t) = doc.nodes[sn].trans.get(*idx) {
                    for tg in &t.targets {
                        if doc.is_history(*tg) {
                            let hp = doc.nodes[*tg].parent.unwrap();
                            if doc.is_descendant(sn, hp) {
                                return true;
                            }
                        }
                    }
                }
            }
        }
        false
    }

    /// Err((clause-suffix, message))
    pub fn feed(&mut self, doc: &Doc, recs: &[(u32, Rec)], run: &Run, root_name: &str) -> Result<(), (String, String)> {
        match self.feed_inner(doc, recs, run, root_name) {
            Ok(()) => Ok(()),
            Err((sfx, msg)) => {
                if sfx.is_empty() && self.history_from_inside(doc) {
                    Err((":history-target-from-inside-its-parent".into(), msg))
                } else {
                    Err((sfx, msg))
                }
            }
        }
    }

    fn feed_inner(&mut self, doc: &Doc, recs: &[(u32, Rec)], run: &Run, root_name: &str) -> Result<(), (String, String)> {
        let ix = |name: &str| -> Result<Nx, (String, String)> {
            doc.by_name(name)
                .ok_or_else(|| ("".to_string(), format!("unknown state '{}' in trace", name)))
        };
        for (t, r) in recs {
            if *t != 0 {
                continue;
            }
            match r {
                Rec::Sel(ids) => {
                    self.last_sel = ids
                        .iter()
                        .map(|i| run.trans_pos.get(i).cloned().unwrap_or((format!("?{}", i), 0)))
                        .collect();
                }
                Rec::Enter(n) => {
                    if n == root_name {
                        continue;
                    }
                    let s = ix(n)?;
                    if doc.is_history(s) {
                        return Err(("".into(), format!("history pseudo-state {} entered", n)));
                    }
                    if !self.cfg.insert(s) {
                        return Err((
                            "".into(),
                            format!("state {} entered while already active (selected transitions {:?})", n, self.last_sel),
                        ));
                    }
                    if doc.is_final(s) && doc.nodes[s].parent == Some(0) {
                        self.terminating = true;
                    }
                    self.pending_exit = None;
                }
                Rec::Exit(n) => {
                    let s = ix(n)?;
                    if !self.cfg.remove(&s) {
                        return Err(("".into(), format!("state {} exited while inactive", n)));
                    }
                    self.pending_exit = Some(s);
                }
                Rec::XRecv(e) => {
                    if e.name == CANCEL_EVENT {
                        self.skip_marks = true;
                    }
                }
                Rec::Mark { cfg: snap, .. } => {
                    if self.skip_marks {
                        continue;
                    }
                    let mut sn: BTreeSet<Nx> = BTreeSet::new();
                    for id in snap {
                        let name = run.state_names.get(id).cloned().unwrap_or_default();
                        if name == root_name {
                            continue;
                        }
                        sn.insert(ix(&name)?);
                    }
                    let mut alt = self.cfg.clone();
                    if let Some(p) = self.pending_exit {
                        alt.insert(p);
                    }
                    if sn != self.cfg && sn != alt {
                        return Err((
                            "".into(),
                            format!(
                                "live configuration {:?} differs from the one reconstructed from enter/exit callbacks {:?}",
                                sn.iter().map(|x| doc.nodes[*x].name.clone()).collect::<Vec<_>>(),
                                self.cfg.iter().map(|x| doc.nodes[*x].name.clone()).collect::<Vec<_>>()
                            ),
                        ));
                    }
                    self.marks_checked += 1;
                }
                Rec::MEnter(m) => {
                    if m == "mainEventLoop" {
                        // start-up entry complete
                        self.legal_checks += 1;
                        legal_configuration(doc, &self.cfg).map_err(|e| ("".to_string(), format!("after start-up: {}", e)))?;
                        if self.terminating {
                            self.skip_marks = true;
                        }
                    }
                }
                Rec::MExit(m) => {
                    if m == "microstep" {
                        self.microsteps += 1;
                        self.legal_checks += 1;
                        self.pending_exit = None;
                        legal_configuration(doc, &self.cfg).map_err(|e| ("".to_string(), format!("after microstep: {}", e)))?;
                        if self.terminating {
                            self.skip_marks = true;
                        }
                    }
                }
                _ => {}
            }
        }
        Ok(())
    }
}

fn names_of(doc: &Doc, v: impl Iterator<Item = Nx>) -> Vec<String> {
    let mut r: Vec<String> = v.map(|x| doc.nodes[x].name.clone()).collect();
    r.sort();
    r
}

/// Compares the real idle state with the reference state. Returns a description of the first difference.
pub fn compare_state(doc: &Doc, st: &RefState, real: &IdleState, root_name: &str) -> Result<(), String> {
    let rcfg: Vec<String> = real.cfg.iter().filter(|n| *n != root_name).cloned().collect();
    if st.running {
        let ecfg = names_of(doc, st.cfg.iter().cloned());
        if rcfg != ecfg {
            return Err(format!("configuration: expected {:?}, real {:?}", ecfg, rcfg));
        }
    } else {
        let efin = names_of(doc, st.final_cfg.clone().unwrap_or_default().into_iter());
        let mut rfin: Vec<String> = real
            .final_cfg
            .clone()
            .unwrap_or_default()
            .into_iter()
            .filter(|n| n != root_name)
            .collect();
        rfin.sort();
        if efin != rfin {
            return Err(format!("final configuration: expected {:?}, real {:?}", efin, rfin));
        }
        if real.running {
            return Err("session still running, reference terminated".into());
        }
    }
    let mut eh: Vec<(String, Vec<String>)> = st
        .hist
        .iter()
        .map(|(h, v)| (doc.nodes[*h].name.clone(), names_of(doc, v.iter().cloned())))
        .collect();
    eh.sort();
    if eh != real.hist {
        return Err(format!("history values: expected {:?}, real {:?}", eh, real.hist));
    }
    let ev: Vec<(String, String)> = st
        .vars
        .iter()
        .filter(|(k, _)| !k.starts_with('_'))
        .map(|(k, v)| (k.clone(), v.show()))
        .collect();
    let rv: Vec<(String, String)> = real
        .vars
        .iter()
        .filter(|(k, _)| !k.starts_with('_'))
        .cloned()
        .collect();
    if ev != rv {
        return Err(format!("data store: expected {:?}, real {:?}", ev, rv));
    }
    Ok(())
}

fn first_diff(exp: &[Obs], real: &[Obs]) -> String {
    let n = exp.len().min(real.len());
    for i in 0..n {
        if exp[i] != real[i] {
            return format!(
                "at position {}: expected {:?}, real {:?}\n  expected: {:?}\n  real:     {:?}",
                i, exp[i], real[i], exp, real
            );
        }
    }
    format!(
        "length differs (expected {} observations, real {}): first extra {:?}\n  expected: {:?}\n  real:     {:?}",
        exp.len(),
        real.len(),
        if exp.len() > n { exp.get(n) } else { real.get(n) },
        exp,
        real
    )
}

/// classify a trace difference into a stable clause name
fn classify(exp: &[Obs], real: &[Obs]) -> &'static str {
    let n = exp.len().min(real.len());
    let (e, r) = match (0..n).find(|i| exp[*i] != real[*i]) {
        Some(i) => (Some(&exp[i]), Some(&real[i])),
        None => (exp.get(n), real.get(n)),
    };
    let kind = |o: Option<&Obs>| match o {
        Some(Obs::Sel(_)) => "sel",
        Some(Obs::Exit(_)) => "exit",
        Some(Obs::Enter(_)) => "enter",
        Some(Obs::Mark(_)) => "content",
        Some(Obs::IRecv(_)) => "internal-event",
        Some(Obs::XRecv(_)) => "external-event",
        Some(Obs::ISend(_)) => "done-event",
        None => "end",
    };
    match (kind(e), kind(r)) {
        ("sel", _) | (_, "sel") => "selection",
        ("internal-event", _) | (_, "internal-event") => "internal-queue-order",
        ("external-event", _) | (_, "external-event") => "external-queue-order",
        ("done-event", _) | (_, "done-event") => "done-event",
        ("exit", _) | (_, "exit") => "exit-set-or-order",
        ("enter", _) | (_, "enter") => "entry-set-or-order",
        _ => "content-order",
    }
}

struct NodeInfo {
    path: Vec<String>,
    todo: VecDeque<String>,
    terminal: bool,
}

pub struct Explorer<'a> {
    pub doc: &'a Doc,
    pub xml: String,
    pub opts: Opts,
    pub rep: DocReport,
    root_name: String,
    /// (path, event) -> normalised trace of that edge, for determinism checks
    edge_traces: HashMap<(Vec<String>, String), Vec<Obs>>,
    run_histories: Vec<Vec<String>>,
    pub sig_hint: String,
}

impl<'a> Explorer<'a> {
    pub fn new(doc: &'a Doc, opts: Opts) -> Explorer<'a> {
        Explorer {
            doc,
            xml: doc.to_xml(),
            opts,
            rep: DocReport::default(),
            root_name: String::new(),
            edge_traces: HashMap::new(),
            run_histories: vec![],
            sig_hint: String::new(),
        }
    }

    fn violation(&mut self, clause: &str, detail: String, history: &[String]) {
        if self.rep.violations.len() < 5 {
            self.rep.violations.push(Violation {
                clause: clause.to_string(),
                sig: format!("{}{}", clause, self.sig_hint),
                detail,
                history: history.to_vec(),
            });
        }
    }

    /// recorded, but the exploration of this document goes on
    fn soft_violation(&mut self, clause: &str, detail: String, history: &[String]) {
        self.rep.soft_violations.push(Violation {
            clause: clause.to_string(),
            sig: format!("{}{}", clause, self.sig_hint),
            detail,
            history: history.to_vec(),
        });
    }

    fn divergent_marker(&self) -> IdleState {
        IdleState {
            cfg: vec!["<divergent>".into()],
            hist: vec![],
            vars: vec![],
            running: false,
            final_cfg: None,
        }
    }

    fn alphabet(&self) -> Vec<String> {
        if self.opts.alphabet_only_extra {
            return self.opts.extra_events.clone();
        }
        let mut a = self.doc.events();
        // descriptors like "e.*" are not event names; strip wildcard suffixes, drop "*"
        a = a
            .into_iter()
            .map(|e| e.trim_end_matches(".*").trim_end_matches('.').to_string())
            .filter(|e| e != "*" && !e.is_empty())
            .collect();
        // events only raised internally are still fine to send externally
        for x in &self.opts.extra_events {
            if !a.contains(x) {
                a.push(x.clone());
            }
        }
        if self.opts.cancel_everywhere {
            a.push(CANCEL_EVENT.to_string());
        }
        a.sort();
        a.dedup();
        a
    }

    fn live_start(&mut self) -> Option<(Live<'a>, IdleState, bool)> {
        let doc = self.doc;
        {
            let mut probe = Ref::new(doc);
            probe.start();
            if probe.diverged {
                self.rep.divergent_start = true;
                return None;
            }
        }
        self.rep.runs += 1;
        let started = if self.opts.via_binary_roundtrip {
            Run::start_via_binary(&self.xml, self.opts.watchdog)
        } else {
            Run::start(&self.xml, self.opts.watchdog)
        };
        let run = match started {
            Ok(r) => r,
            Err(e) => {
                self.violation("reader-rejects-conformant-document", format!("{:?}", e), &[]);
                return None;
            }
        };
        self.root_name = run
            .state_names
            .values()
            .find(|n| doc.by_name(n).is_none())
            .cloned()
            .unwrap_or_default();
        let mut rf = Ref::new(doc);
        rf.start();
        let mut live = Live {
            run,
            rf,
            consumed: 0,
            history: vec![],
            legality: Legality::default(),
        };
        match self.live_check(&mut live) {
            Some((st, running)) => Some((live, st, running)),
            None => {
                self.live_finish(live, false);
                None
            }
        }
    }

    fn live_step(&mut self, live: &mut Live<'a>, ev: &str) -> Option<(IdleState, bool)> {
        // dry-run on a copy of the reference: an event whose macrostep never goes idle is not sent
        {
            let mut probe = Ref::from_state(self.doc, live.rf.st.clone());
            probe.step(Ev::ext(ev));
            if probe.diverged {
                self.rep.divergent_edges += 1;
                return Some((self.divergent_marker(), true));
            }
        }
        live.history.push(ev.to_string());
        live.rf.step(Ev::ext(ev));
        live.run.send_name(ev);
        self.live_check(live)
    }

    /// waits for the session, compares trace and state of the step just taken
    fn live_check(&mut self, live: &mut Live<'a>) -> Option<(IdleState, bool)> {
        let doc = self.doc;
        let root_name = self.root_name.clone();
        let w = if !self.opts.use_reference {
            live.run.wait_idle(live.history.len() + 1)
        } else if live.rf.st.running {
            live.run.wait_idle(live.rf.dequeues)
        } else {
            live.run.wait_idle(usize::MAX)
        };
        let recs = live.run.log.snapshot();
        let real = normalise(&recs, live.consumed, &live.run, &root_name);
        let hist_now = live.history.clone();
        if std::env::var("VH_TRACE").is_ok() {
            eprintln!("--- step {:?}", hist_now.last());
            for r in &recs[live.consumed..] {
                eprintln!("    {:?}", r);
            }
        }
        if self.opts.check_legality {
            if let Err((sfx, e)) = live.legality.feed(doc, &recs[live.consumed..], &live.run, &root_name) {
                let clause = format!("illegal-configuration{}", sfx);
                self.violation(&clause, e, &hist_now);
                return None;
            }
            for (sfx, e) in std::mem::take(&mut live.legality.soft) {
                let clause = format!("illegal-configuration{}", sfx);
                if !self.rep.soft_violations.iter().any(|v| v.clause == clause) {
                    self.soft_violation(&clause, e, &hist_now);
                }
            }
        }
        live.consumed = recs.len();
        let exp = live.rf.take_out();
        self.rep.macrosteps += 1;
        let ref_running = if self.opts.use_reference { live.rf.st.running } else { w == Wait::Idle };
        match (&w, ref_running) {
            (Wait::Idle, true) | (Wait::Ended, false) => {}
            (Wait::Timeout, _) => {
                self.violation(
                    "session-stops-responding",
                    format!(
                        "no idle point within {:?}; expected {:?}; trace so far {:?}",
                        self.opts.watchdog, exp, real
                    ),
                    &hist_now,
                );
                return None;
            }
            (Wait::Died, _) => {
                let p = take_panics();
                self.violation("session-thread-panicked", format!("{:?}", p), &hist_now);
                return None;
            }
            (Wait::Ended, true) => {
                self.violation("session-ended-unexpectedly", first_diff(&exp, &real), &hist_now);
                return None;
            }
            (Wait::Idle, false) => {
                self.violation("session-did-not-end", first_diff(&exp, &real), &hist_now);
                return None;
            }
        }
        if self.opts.use_reference {
            self.rep.ref_comparisons += 1;
            if exp != real {
                let clause = classify(&exp, &real);
                self.violation(clause, first_diff(&exp, &real), &hist_now);
                return None;
            }
        }
        if !hist_now.is_empty() {
            let key = (
                hist_now[..hist_now.len() - 1].to_vec(),
                hist_now[hist_now.len() - 1].clone(),
            );
            match self.edge_traces.get(&key) {
                Some(prev) => {
                    if *prev != real {
                        self.violation(
                            "trace-not-reproducible",
                            format!("first: {:?}\n  again: {:?}", prev, real),
                            &hist_now,
                        );
                        return None;
                    } else {
                        self.rep.replays_equal += 1;
                    }
                }
                None => {
                    self.edge_traces.insert(key, real.clone());
                }
            }
        }
        let mut st = live.run.read_state()?;
        if doc.datamodel == "ecmascript" && self.opts.use_reference {
            // the ecmascript data model keeps its values inside the script engine, GlobalData.data is
            // empty: values are observed through marks only, and the state key takes the reference's
            // values (a deterministic function of the history) so that no two states with different
            // data are merged
            st.vars = live
                .rf
                .st
                .vars
                .iter()
                .filter(|(k, _)| !k.starts_with('_'))
                .map(|(k, v)| (k.clone(), v.show()))
                .collect();
        }
        if self.opts.use_reference {
            if let Err(e) = compare_state(doc, &live.rf.st, &st, &root_name) {
                self.violation("idle-state", e, &hist_now);
                return None;
            }
        }
        if self.rep.sample.is_none() && hist_now.len() >= 2 {
            self.rep.sample = Some(format!("history {:?}: last macrostep {:?} -> cfg {:?}", hist_now, real, st.cfg));
        }
        self.rep.distinct_cfgs.insert(st.cfg.clone());
        Some((st, ref_running))
    }

    fn live_finish(&mut self, live: Live<'a>, ok: bool) -> bool {
        let mut ok = ok;
        self.rep.marks_checked += live.legality.marks_checked;
        self.rep.microsteps += live.legality.microsteps;
        self.rep.legal_checks += live.legality.legal_checks;
        let history = live.history.clone();
        let panicked = live.run.finish();
        if panicked && ok {
            let p = take_panics();
            self.violation("session-thread-panicked", format!("{:?}", p), &history);
            ok = false;
        }
        if ok {
            self.run_histories.push(history);
        }
        ok
    }

    pub fn replay_history(&mut self, history: &[String]) -> bool {
        self.run_history(history)
    }

    /// Executes `history` on a fresh real session in hand-shake mode, checking every step.
    fn run_history(&mut self, history: &[String]) -> bool {
        let (mut live, _, mut running) = match self.live_start() {
            Some(x) => x,
            None => return false,
        };
        for ev in history {
            if !running {
                break;
            }
            match self.live_step(&mut live, ev) {
                Some((_, r)) => running = r,
                None => {
                    self.live_finish(live, false);
                    return false;
                }
            }
        }
        self.live_finish(live, true)
    }

    /// Burst delivery: all events enqueued without waiting; the whole trace must equal the reference's
    /// (which for documents without self-sends equals the hand-shake trace).
    fn run_burst(&mut self, history: &[String]) -> bool {
        let doc = self.doc;
        self.rep.runs += 1;
        let mut run = match Run::start(&self.xml, self.opts.watchdog) {
            Ok(r) => r,
            Err(_) => return false,
        };
        let root_name = self.root_name.clone();
        let mut rf = Ref::new(doc);
        rf.start();
        for ev in history {
            run.send_name(ev);
        }
        for ev in history {
            rf.step(Ev::ext(ev));
        }
        let w = if rf.st.running {
            run.wait_idle(rf.dequeues)
        } else {
            run.wait_idle(usize::MAX)
        };
        let recs = run.log.snapshot();
        let real = normalise(&recs, 0, &run, &root_name);
        let exp = rf.take_out();
        let mut ok = true;
        match (&w, rf.st.running) {
            (Wait::Idle, true) | (Wait::Ended, false) => {}
            _ => {
                self.violation(
                    "burst-delivery-wait",
                    format!("{:?}; {}", w, first_diff(&exp, &real)),
                    history,
                );
                ok = false;
            }
        }
        if ok && exp != real {
            self.violation(
                "burst-delivery-differs",
                first_diff(&exp, &real),
                history,
            );
            ok = false;
        }
        if ok {
            self.rep.burst_equal += 1;
        }
        run.finish();
        ok
    }

    pub fn explore(&mut self) {
        let alphabet = self.alphabet();
        let mut nodes: HashMap<IdleState, NodeInfo> = HashMap::new();
        let mut order: VecDeque<IdleState> = VecDeque::new();
        let max_chain = 30usize;
        let mut first = true;
        loop {
            if !self.rep.violations.is_empty() {
                break;
            }
            // next node (BFS order) that still has unexplored events
            let start_key = if first {
                None
            } else {
                while let Some(k) = order.front() {
                    if nodes.get(k).unwrap().todo.is_empty() {
                        order.pop_front();
                    } else {
                        break;
                    }
                }
                match order.front() {
                    Some(k) => Some(k.clone()),
                    None => break,
                }
            };
            let (mut live, k0, running0) = match self.live_start() {
                Some(x) => x,
                None => return,
            };
            if first {
                first = false;
                nodes.insert(
                    k0.clone(),
                    NodeInfo {
                        path: vec![],
                        todo: if running0 { alphabet.iter().cloned().collect() } else { VecDeque::new() },
                        terminal: !running0,
                    },
                );
                order.push_back(k0.clone());
            }
            let mut cur = k0;
            let mut ok = true;
            if let Some(sk) = start_key {
                let path = nodes.get(&sk).unwrap().path.clone();
                for ev in &path {
                    match self.live_step(&mut live, ev) {
                        Some((k, _)) => cur = k,
                        None => {
                            ok = false;
                            break;
                        }
                    }
                }
                if ok && cur != sk {
                    // same history, different canonical state: not reproducible
                    self.violation(
                        "trace-not-reproducible",
                        format!("replaying the same history reached {:?} instead of {:?}", cur, sk),
                        &path,
                    );
                    ok = false;
                }
            }
            let start_len = live.history.len();
            while ok {
                if live.history.len() >= start_len + max_chain {
                    break;
                }
                let ev = match nodes.get_mut(&cur).and_then(|n| n.todo.pop_front()) {
                    Some(e) => e,
                    None => break,
                };
                match self.live_step(&mut live, &ev) {
                    Some((nk, _)) if nk.cfg.len() == 1 && nk.cfg[0] == "<divergent>" => {
                        continue;
                    }
                    Some((nk, running)) => {
                        self.rep.edges += 1;
                        self.rep.max_depth_seen = self.rep.max_depth_seen.max(live.history.len());
                        if !nodes.contains_key(&nk) {
                            if nodes.len() >= self.opts.max_states {
                                self.rep.state_capped = true;
                                break;
                            }
                            let too_deep = live.history.len() >= self.opts.max_depth;
                            if too_deep && running {
                                self.rep.depth_capped = true;
                            }
                            nodes.insert(
                                nk.clone(),
                                NodeInfo {
                                    path: live.history.clone(),
                                    todo: if running && !too_deep { alphabet.iter().cloned().collect() } else { VecDeque::new() },
                                    terminal: !running,
                                },
                            );
                            order.push_back(nk.clone());
                        } else if let Some(n) = nodes.get_mut(&nk) {
                            // keep the shortest known history to every state
                            if live.history.len() < n.path.len() {
                                n.path = live.history.clone();
                            }
                        }
                        cur = nk;
                        if !running {
                            break;
                        }
                    }
                    None => {
                        ok = false;
                    }
                }
            }
            if !self.live_finish(live, ok) {
                break;
            }
        }
        self.rep.states = nodes.len();
        let _ = nodes.values().filter(|n| n.terminal).count();
        if !self.rep.violations.is_empty() {
            return;
        }
        let histories = self.run_histories.clone();
        if self.opts.twice {
            for h in &histories {
                if h.is_empty() {
                    continue;
                }
                if !self.run_history(h) {
                    return;
                }
            }
        }
        if self.opts.burst && !doc_has_self_send(self.doc) {
            for h in &histories {
                if h.len() < 2 {
                    continue;
                }
                if !self.run_burst(h) {
                    return;
                }
            }
        }
    }
}

fn block_has_self_send(b: &Block) -> bool {
    b.iter().any(|s| match s {
        Stmt::SendSelf(_) => true,
        Stmt::If { branches, els } => {
            branches.iter().any(|(_, b)| block_has_self_send(b)) || els.as_ref().map(|b| block_has_self_send(b)).unwrap_or(false)
        }
        Stmt::Foreach { body, .. } => block_has_self_send(body),
        _ => false,
    })
}

/// documents whose sessions send external events to themselves: the order of those relative to host
/// events already queued is timing dependent, so the burst comparison does not apply
pub fn doc_has_self_send(d: &Doc) -> bool {
    d.nodes.iter().any(|n| {
        n.onentry.iter().any(block_has_self_send)
            || n.onexit.iter().any(block_has_self_send)
            || n.trans.iter().any(|t| block_has_self_send(&t.content))
            || n.initial_elem.as_ref().map(|(_, b)| block_has_self_send(b)).unwrap_or(false)
    })
}

pub struct Live<'a> {
    pub run: Run,
    pub rf: Ref<'a>,
    pub consumed: usize,
    pub history: Vec<String>,
    pub legality: Legality,
}


//! Controlled scheduler (CHESS style): runs real rFSM threads one at a time and decides, at every
//! visible synchronisation operation, which thread continues. Stateless exploration by re-execution
//! with iterative preemption bounding. Only compiled with --cfg rufsm_verif.

use rufsm::verif_sync::Runtime;
use std::cell::Cell;
use std::collections::{BTreeMap, BTreeSet, HashMap};
use std::panic::{catch_unwind, AssertUnwindSafe};
use std::sync::{Arc, Condvar, Mutex};
use std::time::Duration;

thread_local! {
    static ME: Cell<Option<usize>> = const { Cell::new(None) };
    /// execution a controlled thread belongs to; threads left over from an earlier execution
    /// (deadlocked or stuck ones) must never take part in a later one
    static EPOCH: Cell<u64> = const { Cell::new(0) };
}

#[derive(Clone, Debug, PartialEq)]
pub enum Op {
    Start,
    MutexLock(u64),
    Send(u64),
    Recv(u64),
    Join(usize),
    Atomic(u64),
    Spawn,
    TimerSchedule(u64),
    TimerCancel(u64),
    TimerWait(u64),
    /// release of a mutex that some thread probes with try_lock (only then the moment of the
    /// release is observable by other threads)
    Unlock(u64),
}

struct Th {
    name: String,
    pending: Option<Op>,
    finished: bool,
    panicked: bool,
    children: usize,
    objects: u64,
    held: Vec<u64>,
    bt: Option<String>,
    /// vector clock over thread indices; only spawn and join edges order accesses (lock hand-offs
    /// deliberately do not: their order is what is explored)
    vc: Vec<u32>,
}

struct Chan {
    len: usize,
    senders: usize,
}

struct Item {
    id: u64,
    due: i64,
    seq: u64,
    cb: Option<Box<dyn FnMut() + Send + 'static>>,
}

struct TimerSt {
    alive: bool,
    has_thread: bool,
    items: Vec<Item>,
}

#[derive(Clone, Debug)]
pub struct Choice {
    pub enabled: Vec<String>,
    pub chosen: String,
    /// the thread that was running when the choice was made, if it could have continued
    pub running: Option<String>,
    pub op: String,
}

#[derive(Clone, Debug, PartialEq)]
pub enum Outcome {
    /// every thread finished
    Finished,
    /// no thread can continue, at least one waits for a mutex: (thread, holds, wants)
    Deadlock(Vec<(String, Vec<String>, String)>),
    /// no thread can continue, none waits for a mutex (all wait for events / joins that never come)
    Stuck(Vec<(String, String)>),
    /// step horizon reached
    Horizon,
    /// replaying the forced prefix met a different set of enabled threads
    Divergence(String),
}

#[derive(Clone, Debug)]
pub struct Step {
    pub thread: String,
    pub op: String,
    pub now: i64,
}

impl St {
    fn concurrent_or_shared(&self, id: u64) -> bool {
        let n = Sched::obj_name(self, id);
        self.shared.contains(&n) || self.concurrent.contains(&n)
    }
}

struct St {
    epoch: u64,
    active: bool,
    threads: Vec<Th>,
    current: usize,
    owners: HashMap<u64, usize>,
    chans: HashMap<u64, Chan>,
    timers: HashMap<u64, TimerSt>,
    item_owner: HashMap<u64, u64>,
    now: i64,
    seq: u64,
    next_obj: u64,
    obj_names: HashMap<u64, String>,
    prefix: Vec<String>,
    choices: Vec<Choice>,
    steps: Vec<Step>,
    done: Option<Outcome>,
    horizon: usize,
    /// names of mutexes known to be used by more than one thread (choice points)
    shared: BTreeSet<String>,
    touched: BTreeMap<String, BTreeSet<String>>,
    /// per mutex: last access clock of every thread that locked it
    access: HashMap<u64, Vec<(usize, Vec<u32>)>>,
    /// mutexes locked by two threads whose accesses are not ordered by spawn/join
    concurrent: BTreeSet<String>,
    /// mutexes on which try_lock was called (this and earlier executions)
    trylocked: BTreeSet<String>,
    atomics_are_choices: bool,
    capture_bt: bool,
}

pub struct Sched {
    s: Mutex<St>,
    cv: Condvar,
    done_cv: Condvar,
}

#[derive(Clone, Debug)]
pub struct ExecResult {
    pub outcome: Outcome,
    pub choices: Vec<Choice>,
    pub steps: Vec<Step>,
    pub touched: BTreeMap<String, BTreeSet<String>>,
    pub concurrent: BTreeSet<String>,
    pub trylocked: BTreeSet<String>,
    pub threads: Vec<(String, bool, bool)>,
    /// set by `explore`: this execution is also run by another worker process (root and first level), which counts it
    pub duplicate: bool,
}

type Job = Box<dyn FnOnce() + Send + 'static>;

/// OS threads are reused across executions (thread creation is the dominant cost of an execution);
/// a thread that ends up parked forever (deadlocked execution) simply never returns to the pool.
static POOL: Mutex<Vec<std::sync::mpsc::Sender<Job>>> = Mutex::new(Vec::new());

fn pool_run(job: Job) {
    let idle = POOL.lock().unwrap_or_else(|e| e.into_inner()).pop();
    let job = match idle {
        Some(tx) => match tx.send(job) {
            Ok(()) => return,
            Err(e) => e.0,
        },
        None => job,
    };
    let (tx, rx) = std::sync::mpsc::channel::<Job>();
    std::thread::Builder::new()
        .name("ctl".into())
        .spawn(move || {
            let mut next: Option<Job> = Some(job);
            loop {
                let j = match next.take() {
                    Some(j) => j,
                    None => match rx.recv() {
                        Ok(j) => j,
                        Err(_) => break,
                    },
                };
                j();
                POOL.lock().unwrap_or_else(|e| e.into_inner()).push(tx.clone());
            }
        })
        .expect("spawn pool thread");
}

/// OS threads abandoned in executions that did not finish (deadlock, stuck, horizon): they stay parked for the
/// life of the process. The engine stops exploring a scenario when too many have piled up.
pub static ABANDONED_THREADS: std::sync::atomic::AtomicUsize = std::sync::atomic::AtomicUsize::new(0);

/// an execution that creates more controlled threads than this is cut off with outcome Horizon
pub const MAX_THREADS_PER_EXECUTION: usize = 40;

fn park_forever() -> ! {
    ABANDONED_THREADS.fetch_add(1, std::sync::atomic::Ordering::Relaxed);
    loop {
        std::thread::park_timeout(Duration::from_secs(3600));
    }
}

impl Sched {
    pub fn new() -> Arc<Sched> {
        Arc::new(Sched {
            s: Mutex::new(St {
                epoch: 0,
                active: false,
                threads: vec![],
                current: 0,
                owners: HashMap::new(),
                chans: HashMap::new(),
                timers: HashMap::new(),
                item_owner: HashMap::new(),
                now: 0,
                seq: 0,
                next_obj: 1,
                obj_names: HashMap::new(),
                prefix: vec![],
                choices: vec![],
                steps: vec![],
                done: None,
                horizon: 20_000,
                shared: BTreeSet::new(),
                touched: BTreeMap::new(),
                access: HashMap::new(),
                concurrent: BTreeSet::new(),
                trylocked: BTreeSet::new(),
                atomics_are_choices: false,
                capture_bt: false,
            }),
            cv: Condvar::new(),
            done_cv: Condvar::new(),
        })
    }

    fn lock(&self) -> std::sync::MutexGuard<'_, St> {
        self.s.lock().unwrap_or_else(|e| e.into_inner())
    }

    fn op_enabled(s: &St, op: &Op) -> bool {
        match op {
            Op::MutexLock(id) => !s.owners.contains_key(id),
            Op::Recv(id) => s.chans.get(id).map(|c| c.len > 0 || c.senders == 0).unwrap_or(false),
            Op::Join(t) => s.threads[*t].finished,
            Op::TimerWait(t) => {
                let tm = match s.timers.get(t) {
                    Some(x) => x,
                    None => return true,
                };
                if !tm.alive {
                    return true;
                }
                let mine = tm.items.iter().map(|i| (i.due, i.seq)).min();
                let global = s
                    .timers
                    .values()
                    .filter(|x| x.alive)
                    .flat_map(|x| x.items.iter().map(|i| (i.due, i.seq)))
                    .min();
                mine.is_some() && mine == global
            }
            _ => true,
        }
    }

    fn obj_name(s: &St, id: u64) -> String {
        s.obj_names.get(&id).cloned().unwrap_or_else(|| format!("?{}", id))
    }

    fn op_text(s: &St, op: &Op) -> String {
        match op {
            Op::Start => "start".into(),
            Op::MutexLock(id) => format!("lock {}", Self::obj_name(s, *id)),
            Op::Send(id) => format!("send {}", Self::obj_name(s, *id)),
            Op::Recv(id) => format!("recv {}", Self::obj_name(s, *id)),
            Op::Join(t) => format!("join {}", s.threads[*t].name),
            Op::Atomic(id) => format!("atomic {}", Self::obj_name(s, *id)),
            Op::Spawn => "spawn".into(),
            Op::TimerSchedule(id) => format!("timer-schedule {}", Self::obj_name(s, *id)),
            Op::TimerCancel(id) => format!("timer-cancel item{}", id),
            Op::TimerWait(id) => format!("timer-fire {}", Self::obj_name(s, *id)),
            Op::Unlock(id) => format!("unlock {}", Self::obj_name(s, *id)),
        }
    }

    fn is_choice_kind(s: &St, op: &Op) -> bool {
        match op {
            Op::MutexLock(id) | Op::Unlock(id) => s.shared.contains(&Self::obj_name(s, *id)),
            Op::Atomic(_) => s.atomics_are_choices,
            _ => true,
        }
    }

    /// Decides which thread runs next. `running`: the thread that reached a scheduling point (None:
    /// it finished).
    fn schedule_next(&self, s: &mut St, running: Option<usize>) {
        if s.done.is_some() {
            return;
        }
        if s.steps.len() > s.horizon {
            s.done = Some(Outcome::Horizon);
            self.cv.notify_all();
            self.done_cv.notify_all();
            return;
        }
        let enabled: Vec<usize> = (0..s.threads.len())
            .filter(|t| {
                let th = &s.threads[*t];
                !th.finished && th.pending.as_ref().map(|op| Self::op_enabled(s, op)).unwrap_or(false)
            })
            .collect();
        if enabled.is_empty() {
            let unfinished: Vec<usize> = (0..s.threads.len()).filter(|t| !s.threads[*t].finished).collect();
            let outcome = if unfinished.is_empty() {
                Outcome::Finished
            } else {
                let on_mutex: Vec<usize> = unfinished
                    .iter()
                    .cloned()
                    .filter(|t| matches!(s.threads[*t].pending, Some(Op::MutexLock(_))))
                    .collect();
                if !on_mutex.is_empty() {
                    Outcome::Deadlock(
                        unfinished
                            .iter()
                            .map(|t| {
                                let th = &s.threads[*t];
                                (
                                    format!("{}{}", th.name, th.bt.as_ref().map(|b| format!("\n{}", b)).unwrap_or_default()),
                                    th.held.iter().map(|h| Self::obj_name(s, *h)).collect(),
                                    th.pending.as_ref().map(|op| Self::op_text(s, op)).unwrap_or_default(),
                                )
                            })
                            .collect(),
                    )
                } else {
                    Outcome::Stuck(
                        unfinished
                            .iter()
                            .map(|t| {
                                let th = &s.threads[*t];
                                (th.name.clone(), th.pending.as_ref().map(|op| Self::op_text(s, op)).unwrap_or_default())
                            })
                            .collect(),
                    )
                }
            };
            s.done = Some(outcome);
            self.cv.notify_all();
            self.done_cv.notify_all();
            return;
        }
        let running_enabled = running.filter(|r| enabled.contains(r));
        // is this a choice point?
        let offer = enabled.len() > 1
            && match running_enabled {
                Some(r) => {
                    let op = s.threads[r].pending.clone().unwrap();
                    Self::is_choice_kind(s, &op)
                }
                None => true,
            };
        let default = running_enabled.unwrap_or(enabled[0]);
        let chosen = if offer {
            let names: Vec<String> = enabled.iter().map(|t| s.threads[*t].name.clone()).collect();
            let pos = s.choices.len();
            let pick = if pos < s.prefix.len() {
                let want = s.prefix[pos].clone();
                match enabled.iter().find(|t| s.threads[**t].name == want) {
                    Some(t) => *t,
                    None => {
                        s.done = Some(Outcome::Divergence(format!(
                            "choice {}: forced thread {} not among enabled {:?}",
                            pos, want, names
                        )));
                        self.cv.notify_all();
                        self.done_cv.notify_all();
                        return;
                    }
                }
            } else {
                default
            };
            let op = running_enabled
                .map(|r| Self::op_text(s, s.threads[r].pending.as_ref().unwrap()))
                .unwrap_or_else(|| "blocked-or-finished".into());
            s.choices.push(Choice {
                enabled: names,
                chosen: s.threads[pick].name.clone(),
                running: running_enabled.map(|r| s.threads[r].name.clone()),
                op,
            });
            pick
        } else {
            default
        };
        // wake the others only when the baton changes hands
        let handoff = running != Some(chosen);
        s.current = chosen;
        if handoff {
            self.cv.notify_all();
        }
    }

    /// Called by a controlled thread before a visible operation; returns when the thread may perform it.
    fn point(&self, op: Op) {
        let me = match ME.with(|m| m.get()) {
            Some(m) => m,
            None => return,
        };
        let mut s = self.lock();
        if s.done.is_some() || s.epoch != EPOCH.with(|e| e.get()) {
            drop(s);
            park_forever();
        }
        if s.capture_bt {
            if let Op::MutexLock(_) = op {
                let bt = std::backtrace::Backtrace::force_capture().to_string();
                let lines: Vec<&str> = bt
                    .lines()
                    .filter(|l| l.contains("rufsm::") && !l.contains("verif_sync"))
                    .take(8)
                    .collect();
                s.threads[me].bt = Some(lines.join("\n"));
            }
        }
        s.threads[me].pending = Some(op);
        self.schedule_next(&mut s, Some(me));
        self.wait_grant(s, me);
    }

    fn wait_grant(&self, mut s: std::sync::MutexGuard<'_, St>, me: usize) {
        loop {
            if s.done.is_some() || s.epoch != EPOCH.with(|e| e.get()) {
                drop(s);
                park_forever();
            }
            if s.current == me && s.threads[me].pending.as_ref().map(|op| Self::op_enabled(&s, op)).unwrap_or(false) {
                break;
            }
            s = self.cv.wait(s).unwrap_or_else(|e| e.into_inner());
        }
        // granted: apply the effect of the operation
        let op = s.threads[me].pending.take().unwrap();
        let text = Self::op_text(&s, &op);
        let tname = s.threads[me].name.clone();
        match &op {
            Op::MutexLock(id) => {
                s.owners.insert(*id, me);
                s.threads[me].held.push(*id);
                let on = Self::obj_name(&s, *id);
                s.touched.entry(on.clone()).or_default().insert(tname.clone());
                let my_vc = s.threads[me].vc.clone();
                let leq = |a: &Vec<u32>, b: &Vec<u32>| a.iter().enumerate().all(|(i, x)| *x <= b.get(i).cloned().unwrap_or(0));
                let acc = s.access.entry(*id).or_default();
                let mut conc = false;
                for (t, v) in acc.iter() {
                    if *t != me && !leq(v, &my_vc) {
                        conc = true;
                    }
                }
                match acc.iter_mut().find(|(t, _)| *t == me) {
                    Some(e) => e.1 = my_vc,
                    None => acc.push((me, my_vc)),
                }
                if conc {
                    s.concurrent.insert(on);
                }
            }
            Op::Recv(id) => {
                if let Some(c) = s.chans.get_mut(id) {
                    if c.len > 0 {
                        c.len -= 1;
                    }
                }
            }
            Op::Send(id) => {
                s.chans.entry(*id).or_insert(Chan { len: 0, senders: 1 }).len += 1;
            }
            Op::Join(t) => {
                let other = s.threads[*t].vc.clone();
                let mine = &mut s.threads[me].vc;
                if mine.len() < other.len() {
                    mine.resize(other.len(), 0);
                }
                for (i, x) in other.iter().enumerate() {
                    if mine[i] < *x {
                        mine[i] = *x;
                    }
                }
            }
            _ => {}
        }
        // every step advances the thread's own clock component
        {
            let th = &mut s.threads[me];
            if th.vc.len() <= me {
                th.vc.resize(me + 1, 0);
            }
            th.vc[me] += 1;
        }
        let now = s.now;
        s.steps.push(Step {
            thread: tname,
            op: text,
            now,
        });
    }

    fn thread_exit(&self, me: usize, panicked: bool) {
        let mut s = self.lock();
        if s.epoch != EPOCH.with(|e| e.get()) {
            return;
        }
        s.threads[me].finished = true;
        s.threads[me].panicked = panicked;
        s.threads[me].pending = None;
        ME.with(|m| m.set(None));
        self.schedule_next(&mut s, None);
        self.cv.notify_all();
        self.done_cv.notify_all();
    }

    fn start_os_thread(self: &Arc<Self>, idx: usize, f: Box<dyn FnOnce() + Send + 'static>, wait: bool) {
        let this = self.clone();
        let epoch = self.lock().epoch;
        let job: Job = Box::new(move || {
            ME.with(|m| m.set(Some(idx)));
            EPOCH.with(|e| e.set(epoch));
            crate::rec::set_logical_thread(Some(epoch * 10_000 + idx as u64));
            if wait {
                let s = this.lock();
                this.wait_grant(s, idx);
            }
            let r = catch_unwind(AssertUnwindSafe(f));
            this.thread_exit(idx, r.is_err());
            ME.with(|m| m.set(None));
            crate::rec::set_logical_thread(None);
        });
        pool_run(job);
    }

    /// Runs `body` as controlled thread "0" with the forced choice prefix; returns when the execution
    /// reached a terminal state.
    pub fn run_once(
        self: &Arc<Self>,
        body: Box<dyn FnOnce() + Send + 'static>,
        prefix: &[String],
        shared: &BTreeSet<String>,
        atomics: bool,
        capture_bt: bool,
        horizon: usize,
    ) -> ExecResult {
        {
            let mut s = self.lock();
            s.epoch += 1;
            s.active = true;
            s.threads = vec![Th {
                name: "0".into(),
                pending: None,
                finished: false,
                panicked: false,
                children: 0,
                objects: 0,
                held: vec![],
                bt: None,
                vc: vec![1],
            }];
            s.current = 0;
            s.owners.clear();
            s.chans.clear();
            s.timers.clear();
            s.item_owner.clear();
            s.now = 0;
            s.seq = 0;
            s.obj_names.clear();
            s.prefix = prefix.to_vec();
            s.choices.clear();
            s.steps.clear();
            s.done = None;
            s.horizon = horizon;
            s.shared = shared.clone();
            s.touched.clear();
            s.access.clear();
            s.concurrent.clear();
            s.atomics_are_choices = atomics;
            s.capture_bt = capture_bt;
        }
        self.start_os_thread(0, body, false);
        let mut s = self.lock();
        while s.done.is_none() {
            let (g, to) = self
                .done_cv
                .wait_timeout(s, Duration::from_secs(60))
                .unwrap_or_else(|e| e.into_inner());
            s = g;
            if to.timed_out() && s.done.is_none() {
                // a controlled thread is stuck outside the scheduler's sight (real blocking call)
                s.done = Some(Outcome::Divergence("execution made no progress for 60 s (uncontrolled blocking?)".into()));
            }
        }
        s.active = false;
        ExecResult {
            outcome: s.done.clone().unwrap(),
            choices: s.choices.clone(),
            steps: s.steps.clone(),
            touched: s.touched.clone(),
            concurrent: s.concurrent.clone(),
            trylocked: s.trylocked.clone(),
            threads: s.threads.iter().map(|t| (t.name.clone(), t.finished, t.panicked)).collect(),
            duplicate: false,
        }
    }
}

/// the object installed into rufsm::verif_sync
pub struct Rt(pub Arc<Sched>);

impl Runtime for Rt {
    fn controls_current_thread(&self) -> bool {
        ME.with(|m| m.get()).is_some()
    }


    fn new_object(&self, kind: &'static str) -> u64 {
        let me = ME.with(|m| m.get()).unwrap_or(0);
        let mut s = self.0.lock();
        let id = s.next_obj;
        s.next_obj += 1;
        s.threads[me].objects += 1;
        let name = format!("{}#{}{}", s.threads[me].name, &kind[..1], s.threads[me].objects);
        s.obj_names.insert(id, name);
        if kind == "channel" {
            s.chans.insert(id, Chan { len: 0, senders: 1 });
        }
        id
    }

    fn mutex_lock(&self, id: u64) {
        self.0.point(Op::MutexLock(id));
    }

    fn mutex_try_lock(&self, id: u64) -> bool {
        let me = match ME.with(|m| m.get()) {
            Some(m) => m,
            None => return true,
        };
        let mut s = self.0.lock();
        let on = Sched::obj_name(&s, id);
        s.trylocked.insert(on);
        if s.owners.contains_key(&id) {
            false
        } else {
            s.owners.insert(id, me);
            s.threads[me].held.push(id);
            true
        }
    }

    fn mutex_unlock(&self, id: u64) {
        let probe = {
            let s = self.0.lock();
            s.owners.contains_key(&id) && s.trylocked.contains(&Sched::obj_name(&s, id)) && s.concurrent_or_shared(id)
        };
        if probe && ME.with(|m| m.get()).is_some() && !std::thread::panicking() {
            self.0.point(Op::Unlock(id));
        }
        let mut s = self.0.lock();
        if let Some(o) = s.owners.remove(&id) {
            if let Some(p) = s.threads[o].held.iter().rposition(|x| *x == id) {
                s.threads[o].held.remove(p);
            }
        }
    }

    fn chan_send(&self, id: u64) {
        self.0.point(Op::Send(id));
    }

    fn chan_recv(&self, id: u64) -> bool {
        self.0.point(Op::Recv(id));
        // after the grant: an item was reserved (len decremented) unless disconnected
        // (the real recv() that follows returns the item or the disconnect error)
        true
    }

    fn chan_sender_clone(&self, id: u64) {
        let mut s = self.0.lock();
        s.chans.entry(id).or_insert(Chan { len: 0, senders: 1 }).senders += 1;
    }

    fn chan_sender_drop(&self, id: u64) {
        let mut s = self.0.lock();
        if let Some(c) = s.chans.get_mut(&id) {
            c.senders = c.senders.saturating_sub(1);
        }
    }

    fn chan_receiver_drop(&self, _id: u64) {}

    fn atomic_op(&self, id: u64) {
        self.0.point(Op::Atomic(id));
    }

    fn spawn(&self, _name: Option<String>, f: Box<dyn FnOnce() + Send + 'static>) -> u64 {
        let me = ME.with(|m| m.get()).unwrap_or(0);
        let idx = {
            let mut s = self.0.lock();
            if s.threads.len() >= MAX_THREADS_PER_EXECUTION && s.done.is_none() {
                // runaway thread creation (e.g. an <invoke> started over and over): cut the execution off
                s.done = Some(Outcome::Horizon);
                self.0.cv.notify_all();
                self.0.done_cv.notify_all();
                drop(s);
                park_forever();
            }
            s.threads[me].children += 1;
            let name = format!("{}.{}", s.threads[me].name, s.threads[me].children);
            let vc = s.threads[me].vc.clone();
            s.threads.push(Th {
                name,
                pending: Some(Op::Start),
                finished: false,
                panicked: false,
                children: 0,
                objects: 0,
                held: vec![],
                bt: None,
                vc,
            });
            s.threads.len() - 1
        };
        self.0.start_os_thread(idx, f, true);
        self.0.point(Op::Spawn);
        idx as u64
    }

    fn join(&self, token: u64) -> bool {
        self.0.point(Op::Join(token as usize));
        let s = self.0.lock();
        !s.threads[token as usize].panicked
    }

    fn timer_new(&self) -> u64 {
        let id = Runtime::new_object(self, "timer");
        let mut s = self.0.lock();
        s.timers.insert(
            id,
            TimerSt {
                alive: true,
                has_thread: false,
                items: vec![],
            },
        );
        id
    }

    fn timer_schedule(&self, timer: u64, delay_ms: i64, cb: Box<dyn FnMut() + Send + 'static>) -> u64 {
        self.0.point(Op::TimerSchedule(timer));
        let (item, need_thread) = {
            let mut s = self.0.lock();
            s.seq += 1;
            let seq = s.seq;
            let due = s.now + delay_ms.max(0);
            let id = s.next_obj;
            s.next_obj += 1;
            s.item_owner.insert(id, timer);
            let tm = s.timers.get_mut(&timer).expect("timer");
            tm.items.push(Item {
                id,
                due,
                seq,
                cb: Some(cb),
            });
            let need = !tm.has_thread;
            tm.has_thread = true;
            let tn = s.threads[ME.with(|m| m.get()).unwrap_or(0)].name.clone();
            let now = s.now;
            s.steps.push(Step {
                thread: tn,
                op: format!("timer-item item{} due={}", id, due),
                now,
            });
            (id, need)
        };
        if need_thread {
            let this = self.0.clone();
            Runtime::spawn(
                self,
                Some("timer".into()),
                Box::new(move || loop {
                    this.point(Op::TimerWait(timer));
                    let cb = {
                        let mut s = this.lock();
                        let alive = s.timers.get(&timer).map(|t| t.alive).unwrap_or(false);
                        if !alive {
                            break;
                        }
                        let tm = s.timers.get_mut(&timer).unwrap();
                        let pos = tm
                            .items
                            .iter()
                            .enumerate()
                            .min_by_key(|(_, i)| (i.due, i.seq))
                            .map(|(p, _)| p);
                        match pos {
                            Some(p) => {
                                let mut it = tm.items.remove(p);
                                let due = it.due;
                                let iid = it.id;
                                if due > s.now {
                                    s.now = due;
                                }
                                let now = s.now;
                                let tn = s.threads[ME.with(|m| m.get()).unwrap()].name.clone();
                                s.steps.push(Step {
                                    thread: tn,
                                    op: format!("timer-pop item{}", iid),
                                    now,
                                });
                                it.cb.take()
                            }
                            None => None,
                        }
                    };
                    if let Some(mut cb) = cb {
                        cb();
                    }
                }),
            );
        }
        item
    }

    fn timer_cancel(&self, item: u64) {
        if ME.with(|m| m.get()).is_some() {
            self.0.point(Op::TimerCancel(item));
        }
        let cb = {
            let mut s = self.0.lock();
            let mut dropped = None;
            if let Some(t) = s.item_owner.get(&item).cloned() {
                if let Some(tm) = s.timers.get_mut(&t) {
                    if let Some(p) = tm.items.iter().position(|i| i.id == item) {
                        dropped = Some(tm.items.remove(p));
                    }
                }
            }
            dropped
        };
        // the callback (and what it captured) is dropped outside the scheduler lock
        drop(cb);
    }

    fn timer_drop(&self, timer: u64) {
        let items = {
            let mut s = self.0.lock();
            match s.timers.get_mut(&timer) {
                Some(tm) => {
                    tm.alive = false;
                    std::mem::take(&mut tm.items)
                }
                None => vec![],
            }
        };
        drop(items);
    }
}

// ------------------------------------------------------------------------------------------ explorer

pub struct Harness {
    pub name: String,
    /// builds the body of one execution; called once per execution
    pub body: Box<dyn Fn() -> Box<dyn FnOnce() + Send + 'static> + Send + Sync>,
    pub atomics: bool,
    pub horizon: usize,
}

#[derive(Default, Clone, Debug)]
pub struct ExploreStats {
    pub executions: u64,
    pub choice_points: u64,
    pub steps: u64,
    pub max_choices: usize,
    pub max_preemptions: usize,
    pub shared_objects: usize,
    pub restarts_for_shared: usize,
    pub bound_completed: usize,
    pub capped: bool,
}

pub fn preemptions(choices: &[Choice]) -> usize {
    choices
        .iter()
        .filter(|c| c.running.is_some() && c.running.as_ref() != Some(&c.chosen))
        .count()
}

/// Depth-first exploration of all schedules with at most `bound` preemptions.
/// `on_exec(prefix used, result)` returns false to stop.
/// `slice`: (index, of) partitions the first level of alternatives among worker processes.
pub fn explore(
    sched: &Arc<Sched>,
    h: &Harness,
    bound: usize,
    max_executions: u64,
    slice: (usize, usize),
    on_exec: &mut dyn FnMut(&[String], &ExecResult) -> bool,
) -> ExploreStats {
    let mut stats = ExploreStats::default();
    let mut shared: BTreeSet<String> = BTreeSet::new();
    let mut touched_all: BTreeMap<String, BTreeSet<String>> = BTreeMap::new();
    let mut trylocked_all: BTreeSet<String> = BTreeSet::new();
    loop {
        // one pass with the current shared-object set
        let mut grew = false;
        // (forced prefix, level: 0 root / 1 first-level alternative / 2 deeper, index within the level)
        let mut stack: Vec<(Vec<String>, u8, usize)> = vec![(vec![], 0, 0)];
        let mut l2_counter = 0usize;
        stats.executions = 0;
        stats.choice_points = 0;
        stats.steps = 0;
        'pass: while let Some((prefix, level, idx)) = stack.pop() {
            if stats.executions >= max_executions {
                stats.capped = true;
                break;
            }
            let mut r = sched.run_once((h.body)(), &prefix, &shared, h.atomics, false, h.horizon);
            // the root and the first level are executed by every worker (they are few); the second-level
            // alternatives are dealt out round-robin, which balances the subtrees far better than the first level
            r.duplicate = match level {
                0 => slice.0 != 0,
                1 => idx % slice.1 != slice.0,
                _ => false,
            };
            stats.executions += 1;
            stats.choice_points += r.choices.len() as u64;
            stats.steps += r.steps.len() as u64;
            stats.max_choices = stats.max_choices.max(r.choices.len());
            stats.max_preemptions = stats.max_preemptions.max(preemptions(&r.choices));
            for o in &r.trylocked {
                if trylocked_all.insert(o.clone()) {
                    grew = true;
                }
            }
            for o in &r.concurrent {
                if !shared.contains(o) && touched_all.entry(o.clone()).or_default().insert("concurrent".into()) {
                    grew = true;
                }
            }
            if !on_exec(&prefix, &r) {
                break 'pass;
            }
            // alternatives
            let mut alts: Vec<Vec<String>> = vec![];
            for i in prefix.len()..r.choices.len() {
                let c = &r.choices[i];
                let before = preemptions(&r.choices[..i]);
                for alt in &c.enabled {
                    if *alt == c.chosen {
                        continue;
                    }
                    let cost = before + if c.running.is_some() && c.running.as_ref() != Some(alt) { 1 } else { 0 };
                    if cost > bound {
                        continue;
                    }
                    let mut p: Vec<String> = r.choices[..i].iter().map(|x| x.chosen.clone()).collect();
                    p.push(alt.clone());
                    alts.push(p);
                }
            }
            match level {
                0 => {
                    let n = alts.len();
                    stack.extend(alts.into_iter().enumerate().map(|(i, a)| (a, 1u8, i)).rev().collect::<Vec<_>>());
                    let _ = n;
                }
                1 => {
                    let mut mine = vec![];
                    for a in alts {
                        let k = l2_counter;
                        l2_counter += 1;
                        if k % slice.1 == slice.0 {
                            mine.push((a, 2u8, k));
                        }
                    }
                    stack.extend(mine.into_iter().rev());
                }
                _ => stack.extend(alts.into_iter().map(|a| (a, 2u8, 0usize)).rev().collect::<Vec<_>>()),
            }
        }
        if grew {
            let before = shared.len();
            for o in touched_all.keys() {
                shared.insert(o.clone());
            }
            if (shared.len() > before || grew) && stats.restarts_for_shared < 6 {
                stats.restarts_for_shared += 1;
                continue;
            }
        }
        break;
    }
    stats.shared_objects = shared.len();
    stats.bound_completed = bound;
    stats
}

//! Doc -> generic element tree -> XML text in a chosen lexical style.

use crate::doc::*;

#[derive(Clone, Debug, PartialEq)]
pub enum XNode {
    Elem {
        name: String,
        attrs: Vec<(String, String)>,
        children: Vec<XNode>,
    },
    /// character data (already decoded)
    Text(String),
}

pub fn el(name: &str, attrs: Vec<(&str, String)>, children: Vec<XNode>) -> XNode {
    XNode::Elem {
        name: name.to_string(),
        attrs: attrs.into_iter().map(|(k, v)| (k.to_string(), v)).collect(),
        children,
    }
}

fn names(d: &Doc, t: &[Nx]) -> String {
    t.iter().map(|x| d.nodes[*x].name.clone()).collect::<Vec<_>>().join(" ")
}

fn params_nodes(ps: &[ParamSpec]) -> Vec<XNode> {
    ps.iter()
        .map(|p| {
            let mut a = vec![("name", p.name.clone())];
            if let Some(e) = &p.expr {
                a.push(("expr", e.clone()));
            }
            if let Some(l) = &p.location {
                a.push(("location", l.clone()));
            }
            el("param", a, vec![])
        })
        .collect()
}

fn content_node(c: &ContentSpec) -> XNode {
    let mut a = vec![];
    if let Some(e) = &c.expr {
        a.push(("expr", e.clone()));
    }
    let ch = match &c.text {
        Some(t) => vec![XNode::Text(t.clone())],
        None => vec![],
    };
    el("content", a, ch)
}

pub fn block_nodes(b: &Block) -> Vec<XNode> {
    b.iter().map(stmt_node).collect()
}

fn stmt_node(st: &Stmt) -> XNode {
    match st {
        Stmt::Mark(args) => el("script", vec![], vec![XNode::Text(mark_src(args, None))]),
        Stmt::MarkE(args, e) => el("log", vec![("expr", mark_src(args, Some(e)))], vec![]),
        Stmt::Raise(e) => el("raise", vec![("event", e.clone())], vec![]),
        Stmt::SendInternal(e) => el("send", vec![("event", e.clone()), ("target", "#_internal".into())], vec![]),
        Stmt::SendInternalExpr(e) => el("send", vec![("eventexpr", e.render()), ("target", "#_internal".into())], vec![]),
        Stmt::SendSelf(e) => el("send", vec![("event", e.clone())], vec![]),
        Stmt::If { branches, els } => {
            let mut ch = vec![];
            for (i, (c, b)) in branches.iter().enumerate() {
                if i > 0 {
                    ch.push(el("elseif", vec![("cond", c.render())], vec![]));
                }
                ch.extend(block_nodes(b));
            }
            if let Some(b) = els {
                ch.push(el("else", vec![], vec![]));
                ch.extend(block_nodes(b));
            }
            el("if", vec![("cond", branches[0].0.render())], ch)
        }
        Stmt::Foreach {
            array,
            item,
            index,
            body,
        } => {
            let mut a = vec![("array", array.render()), ("item", item.clone())];
            if let Some(ix) = index {
                a.push(("index", ix.clone()));
            }
            el("foreach", a, block_nodes(body))
        }
        Stmt::Assign(loc, e) => el("assign", vec![("location", loc.clone()), ("expr", e.render())], vec![]),
        Stmt::Log(e) => el("log", vec![("expr", e.render())], vec![]),
        Stmt::Script(e) => el("script", vec![], vec![XNode::Text(e.render())]),
        Stmt::RawXml(x) => XNode::Text(format!("\u{1}RAW{}", x)),
        Stmt::SendX(sp) => {
            let a: Vec<(&str, String)> = sp.attrs.iter().map(|(k, v)| (k.as_str(), v.clone())).collect();
            let mut ch = params_nodes(&sp.params);
            if let Some(c) = &sp.content {
                ch.push(content_node(c));
            }
            XNode::Elem {
                name: "send".into(),
                attrs: a.into_iter().map(|(k, v)| (k.to_string(), v)).collect(),
                children: ch,
            }
        }
        Stmt::CancelX { sendid, sendidexpr } => {
            let mut a = vec![];
            if let Some(x) = sendid {
                a.push(("sendid", x.clone()));
            }
            if let Some(x) = sendidexpr {
                a.push(("sendidexpr", x.clone()));
            }
            el("cancel", a, vec![])
        }
        Stmt::ScriptText(t) => el("script", vec![], vec![XNode::Text(t.clone())]),
        Stmt::AssignText(loc, t) => el("assign", vec![("location", loc.clone())], vec![XNode::Text(t.clone())]),
        Stmt::LogL(label, e) => el("log", vec![("label", label.clone()), ("expr", e.clone())], vec![]),
    }
}

fn data_nodes(node: &Node) -> Vec<XNode> {
    if node.data.is_empty() && node.data_text.is_empty() {
        return vec![];
    }
    let mut ch = vec![];
    for (id, e) in &node.data {
        let mut a = vec![("id", id.clone())];
        if let Some(e) = e {
            a.push(("expr", e.render()));
        }
        ch.push(el("data", a, vec![]));
    }
    for (id, t) in &node.data_text {
        ch.push(el("data", vec![("id", id.clone())], vec![XNode::Text(t.clone())]));
    }
    vec![el("datamodel", vec![], ch)]
}

fn state_node(d: &Doc, n: Nx) -> XNode {
    let node = &d.nodes[n];
    let tag = match node.kind {
        Kind::Root => unreachable!(),
        Kind::State => "state",
        Kind::Parallel => "parallel",
        Kind::Final => "final",
        Kind::HistShallow | Kind::HistDeep => "history",
    };
    let mut a = vec![("id", node.name.clone())];
    match node.kind {
        Kind::HistDeep => a.push(("type", "deep".into())),
        Kind::HistShallow => a.push(("type", "shallow".into())),
        _ => {}
    }
    if let Some(t) = &node.initial_attr {
        a.push(("initial", names(d, t)));
    }
    let mut ch = data_nodes(node);
    if let Some((t, b)) = &node.initial_elem {
        ch.push(el(
            "initial",
            vec![],
            vec![el("transition", vec![("target", names(d, t))], block_nodes(b))],
        ));
    }
    for b in &node.onentry {
        ch.push(el("onentry", vec![], block_nodes(b)));
    }
    for b in &node.onexit {
        ch.push(el("onexit", vec![], block_nodes(b)));
    }
    for t in &node.trans {
        let mut ta = vec![];
        if !t.events.is_empty() {
            ta.push(("event", t.events.join(" ")));
        }
        if let Some(c) = &t.cond {
            ta.push(("cond", c.render()));
        }
        if !t.targets.is_empty() {
            ta.push(("target", names(d, &t.targets)));
        }
        if t.internal {
            ta.push(("type", "internal".into()));
        }
        ch.push(el("transition", ta, block_nodes(&t.content)));
    }
    if let Some(dd) = &node.donedata {
        let mut dc = vec![];
        if let Some(c) = &dd.content {
            dc.push(el("content", vec![("expr", c.render())], vec![]));
        }
        for (pn, e) in &dd.params {
            dc.push(el("param", vec![("name", pn.clone()), ("expr", e.render())], vec![]));
        }
        ch.push(el("donedata", vec![], dc));
    }
    for inv in &node.invokes {
        let mut ic = params_nodes(&inv.params);
        if let Some(c) = &inv.content {
            ic.push(content_node(c));
        }
        if let Some(f) = &inv.finalize {
            ic.push(el("finalize", vec![], block_nodes(f)));
        }
        ch.push(XNode::Elem {
            name: "invoke".into(),
            attrs: inv.attrs.clone(),
            children: ic,
        });
    }
    for r in &node.raw_children {
        ch.push(XNode::Text(format!("\u{1}RAW{}", r)));
    }
    for c in &node.children {
        ch.push(state_node(d, *c));
    }
    el(tag, a, ch)
}

pub fn doc_to_tree(d: &Doc) -> XNode {
    let root = &d.nodes[0];
    let mut a = vec![
        ("version", "1.0".to_string()),
        ("datamodel", d.datamodel.clone()),
        ("name", d.name.clone()),
    ];
    if d.late_binding {
        a.push(("binding", "late".into()));
    }
    if let Some(t) = &root.initial_attr {
        a.push(("initial", names(d, t)));
    }
    let mut ch = data_nodes(root);
    if let Some(sc) = &d.script {
        ch.push(el("script", vec![], vec![XNode::Text(sc.render())]));
    }
    for r in &root.raw_children {
        ch.push(XNode::Text(format!("\u{1}RAW{}", r)));
    }
    for c in &root.children {
        ch.push(state_node(d, *c));
    }
    el("scxml", a, ch)
}

#[derive(Clone, Debug, PartialEq)]
pub enum TextMode {
    /// characters written as they are (only usable when the text has no markup characters)
    Plain,
    /// &lt; &amp; &gt; entities
    Entities,
    /// numeric character references for markup characters
    Numeric,
    /// wrapped in <![CDATA[ ]]>
    CData,
}

#[derive(Clone, Debug, PartialEq)]
pub struct Lex {
    pub quote: char,
    /// whitespace between attributes
    pub attr_sep: String,
    /// whitespace between child elements ("" = none)
    pub child_sep: String,
    pub comments: bool,
    pub prefix: Option<String>,
    /// numeric character references instead of named entities in attribute values
    pub attr_numeric: bool,
    pub text_mode: TextMode,
    /// <a></a> instead of <a/>
    pub expand_empty: bool,
    pub xml_decl: bool,
    /// whitespace around text content
    pub pad_text: bool,
}

impl Default for Lex {
    fn default() -> Self {
        Lex {
            quote: '"',
            attr_sep: " ".into(),
            child_sep: "\n".into(),
            comments: false,
            prefix: None,
            attr_numeric: false,
            text_mode: TextMode::Plain,
            expand_empty: false,
            xml_decl: false,
            pad_text: false,
        }
    }
}

pub fn needs_escaping(t: &str) -> bool {
    t.contains('<') || t.contains('&') || t.contains('>')
}

fn esc_attr(v: &str, lex: &Lex) -> String {
    let mut o = String::new();
    for c in v.chars() {
        match c {
            '&' => o.push_str(if lex.attr_numeric { "&#38;" } else { "&amp;" }),
            '<' => o.push_str(if lex.attr_numeric { "&#x3C;" } else { "&lt;" }),
            '>' => o.push_str(if lex.attr_numeric { "&#62;" } else { "&gt;" }),
            '"' if lex.quote == '"' => o.push_str(if lex.attr_numeric { "&#34;" } else { "&quot;" }),
            '\'' if lex.quote == '\'' => o.push_str(if lex.attr_numeric { "&#39;" } else { "&apos;" }),
            _ => o.push(c),
        }
    }
    o
}

fn esc_text(t: &str, lex: &Lex) -> String {
    let mode = if lex.text_mode == TextMode::Plain && needs_escaping(t) {
        TextMode::Entities
    } else {
        lex.text_mode.clone()
    };
    match mode {
        TextMode::Plain => t.to_string(),
        TextMode::Entities => t.replace('&', "&amp;").replace('<', "&lt;").replace('>', "&gt;"),
        TextMode::Numeric => t.replace('&', "&#38;").replace('<', "&#60;").replace('>', "&#x3e;"),
        TextMode::CData => format!("<![CDATA[{}]]>", t),
    }
}

pub fn esc_attr_default(v: &str) -> String {
    esc_attr(v, &Lex::default())
}

pub fn serialize(root: &XNode, lex: &Lex) -> String {
    let mut s = String::new();
    if lex.xml_decl {
        s.push_str("<?xml version=\"1.0\" encoding=\"UTF-8\"?>");
        s.push_str(&lex.child_sep);
    }
    ser(root, lex, &mut s, true);
    s.push_str(&lex.child_sep);
    s
}

fn ser(n: &XNode, lex: &Lex, s: &mut String, is_root: bool) {
    match n {
        XNode::Text(t) => {
            if let Some(raw) = t.strip_prefix("\u{1}RAW") {
                s.push_str(raw);
            } else {
                if lex.pad_text {
                    s.push_str("\n   ");
                }
                s.push_str(&esc_text(t, lex));
                if lex.pad_text {
                    s.push_str("\n ");
                }
            }
        }
        XNode::Elem { name, attrs, children } => {
            let qn = match &lex.prefix {
                Some(p) => format!("{}:{}", p, name),
                None => name.clone(),
            };
            s.push('<');
            s.push_str(&qn);
            if is_root {
                s.push_str(&lex.attr_sep);
                match &lex.prefix {
                    Some(p) => s.push_str(&format!("xmlns:{}={q}http://www.w3.org/2005/07/scxml{q}", p, q = lex.quote)),
                    None => s.push_str(&format!("xmlns={q}http://www.w3.org/2005/07/scxml{q}", q = lex.quote)),
                }
            }
            for (k, v) in attrs {
                s.push_str(&lex.attr_sep);
                s.push_str(k);
                s.push('=');
                s.push(lex.quote);
                s.push_str(&esc_attr(v, lex));
                s.push(lex.quote);
            }
            if children.is_empty() && !lex.expand_empty {
                s.push_str("/>");
                return;
            }
            s.push('>');
            let only_text = children.iter().all(|c| matches!(c, XNode::Text(t) if !t.starts_with("\u{1}RAW")));
            for c in children {
                if !only_text {
                    s.push_str(&lex.child_sep);
                    if lex.comments {
                        s.push_str("<!-- c -->");
                    }
                }
                ser(c, lex, s, false);
            }
            if !only_text {
                s.push_str(&lex.child_sep);
            }
            s.push_str("</");
            s.push_str(&qn);
            s.push('>');
        }
    }
}

//! Process pool, evidence files, known-findings matching: shared by all engines.

use serde_json::{json, Map, Value};
use std::collections::{BTreeMap, BTreeSet};
use std::io::Write;
use std::process::{Command, Stdio};
use std::time::Instant;

/// root of the verification tree (set by ./check, so that snapshot copies write into themselves)
pub fn verif_dir() -> String {
    std::env::var("VERIF_HOME").unwrap_or_else(|_| "/verif".to_string())
}

#[derive(Clone, Debug)]
pub struct Ctx {
    pub prop: String,
    pub tier: String,
    pub workers: usize,
    pub worker: Option<usize>,
    pub out: Option<String>,
    pub replay: Option<String>,
    pub seed: u64,
    pub extra: Vec<String>,
}

impl Ctx {
    pub fn thorough(&self) -> bool {
        self.tier == "thorough"
    }
    pub fn has(&self, flag: &str) -> bool {
        self.extra.iter().any(|x| x == flag)
    }
    pub fn mine(&self, index: usize) -> bool {
        match self.worker {
            Some(w) => index % self.workers == w,
            None => true,
        }
    }
}

pub fn parse_args() -> Ctx {
    let args: Vec<String> = std::env::args().collect();
    let mut ctx = Ctx {
        prop: String::new(),
        tier: std::env::var("VERIF_TIER").unwrap_or_else(|_| "quick".into()),
        workers: std::env::var("VERIF_WORKERS")
            .ok()
            .and_then(|x| x.parse().ok())
            .unwrap_or(16),
        worker: None,
        out: None,
        replay: None,
        seed: std::env::var("VERIF_SEED")
            .ok()
            .and_then(|x| x.parse().ok())
            .unwrap_or(0),
        extra: vec![],
    };
    let mut i = 1;
    while i < args.len() {
        match args[i].as_str() {
            "--prop" => {
                ctx.prop = args[i + 1].clone();
                i += 1;
            }
            "--tier" => {
                ctx.tier = args[i + 1].clone();
                i += 1;
            }
            "--workers" => {
                ctx.workers = args[i + 1].parse().unwrap();
                i += 1;
            }
            "--worker" => {
                ctx.worker = Some(args[i + 1].parse().unwrap());
                i += 1;
            }
            "--out" => {
                ctx.out = Some(args[i + 1].clone());
                i += 1;
            }
            "--replay" => {
                ctx.replay = Some(args[i + 1].clone());
                i += 1;
            }
            x => ctx.extra.push(x.to_string()),
        }
        i += 1;
    }
    ctx
}

#[derive(Default, Debug)]
pub struct WorkerOut {
    pub counters: BTreeMap<String, u64>,
    pub flags: BTreeMap<String, bool>,
    pub samples: Vec<Value>,
    pub violations: Vec<Value>,
    /// distinct observed outcome classes (to detect vacuous exploration)
    pub outcomes: BTreeSet<String>,
}

impl WorkerOut {
    pub fn add(&mut self, k: &str, v: u64) {
        *self.counters.entry(k.to_string()).or_insert(0) += v;
    }
    pub fn max(&mut self, k: &str, v: u64) {
        let e = self.counters.entry(format!("max_{}", k)).or_insert(0);
        if v > *e {
            *e = v;
        }
    }
    pub fn flag(&mut self, k: &str, v: bool) {
        let e = self.flags.entry(k.to_string()).or_insert(false);
        *e = *e || v;
    }
    pub fn sample(&mut self, v: Value) {
        if self.samples.len() < 3 {
            self.samples.push(v);
        }
    }
    /// Registers a violation; writes the replay file. `sig` is the known-findings signature.
    pub fn violation(&mut self, ctx: &Ctx, clause: &str, sig: &str, detail: &str, replay: Value) {
        let n = self.violations.len();
        if n >= 40 {
            self.add("violations_not_listed", 1);
            return;
        }
        let dir = format!("{}/replays/{}", verif_dir(), ctx.prop);
        let _ = std::fs::create_dir_all(&dir);
        // a slice run (VERIF_SLICE_NAME, e.g. "ecma") shares the directory with the main run
        let slice = std::env::var("VERIF_SLICE_NAME").unwrap_or_default();
        let pfx = if slice.is_empty() { String::new() } else { format!("{}_", slice) };
        let path = format!("{}/{}w{}_{}.json", dir, pfx, ctx.worker.unwrap_or(0), n);
        let mut r = replay;
        if let Value::Object(m) = &mut r {
            m.insert("property".into(), json!(ctx.prop));
            m.insert("clause".into(), json!(clause));
            m.insert("signature".into(), json!(sig));
            m.insert("detail".into(), json!(detail));
        }
        let _ = std::fs::write(&path, serde_json::to_string_pretty(&r).unwrap());
        self.violations.push(json!({"clause": clause, "sig": sig, "detail": detail, "replay": path}));
    }
    /// intermediate state of a worker that may be killed by its subject (process abort): everything found so far
    pub fn save_state(&self, path: &str) {
        let v = json!({
            "counters": self.counters,
            "flags": self.flags,
            "samples": self.samples,
            "violations": self.violations,
            "outcomes": self.outcomes.iter().take(2000).collect::<Vec<_>>(),
        });
        let tmp = format!("{}.tmp", path);
        if std::fs::write(&tmp, serde_json::to_string(&v).unwrap()).is_ok() {
            let _ = std::fs::rename(&tmp, path);
        }
    }
    pub fn load_state(path: &str) -> Option<WorkerOut> {
        let v: Value = serde_json::from_str(&std::fs::read_to_string(path).ok()?).ok()?;
        let mut o = WorkerOut::default();
        for (k, x) in v["counters"].as_object()? {
            o.counters.insert(k.clone(), x.as_u64().unwrap_or(0));
        }
        for (k, x) in v["flags"].as_object()? {
            o.flags.insert(k.clone(), x.as_bool().unwrap_or(false));
        }
        o.samples = v["samples"].as_array().cloned().unwrap_or_default();
        o.violations = v["violations"].as_array().cloned().unwrap_or_default();
        for x in v["outcomes"].as_array().cloned().unwrap_or_default() {
            if let Some(s) = x.as_str() {
                o.outcomes.insert(s.to_string());
            }
        }
        Some(o)
    }
    pub fn write(&self, ctx: &Ctx) {
        let v = json!({
            "done": true,
            "counters": self.counters,
            "flags": self.flags,
            "samples": self.samples,
            "violations": self.violations,
            "outcomes": self.outcomes.iter().take(2000).collect::<Vec<_>>(),
        });
        match &ctx.out {
            Some(p) => std::fs::write(p, serde_json::to_string(&v).unwrap()).unwrap(),
            None => eprintln!("{}", serde_json::to_string_pretty(&v).unwrap()),
        }
    }
}

pub struct Agg {
    pub counters: BTreeMap<String, u64>,
    pub flags: BTreeMap<String, bool>,
    pub samples: Vec<Value>,
    pub violations: Vec<Value>,
    pub outcomes: BTreeSet<String>,
    pub wall_s: f64,
    pub machinery_errors: Vec<String>,
}

impl Agg {
    pub fn c(&self, k: &str) -> u64 {
        *self.counters.get(k).unwrap_or(&0)
    }
    pub fn f(&self, k: &str) -> bool {
        *self.flags.get(k).unwrap_or(&false)
    }
}

/// Redirect this process' stdout to /dev/null (rFSM logs with println!).
pub fn silence_stdout() {
    extern "C" {
        fn open(path: *const u8, flags: i32, ...) -> i32;
        fn dup2(a: i32, b: i32) -> i32;
    }
    unsafe {
        let fd = open(b"/dev/null\0".as_ptr(), 1);
        if fd >= 0 {
            dup2(fd, 1);
        }
    }
}

/// Spawns the worker processes (re-executing the current binary) and aggregates their output.
pub fn run_workers(ctx: &Ctx) -> Agg {
    run_workers_resumable(ctx, 0)
}

/// As run_workers; a worker that ends without a result (exit code 3 = lost its evaluator thread,
/// or killed by a signal) is started again up to `max_respawns` times; it resumes from its state file.
pub fn run_workers_resumable(ctx: &Ctx, max_respawns: usize) -> Agg {
    let t0 = Instant::now();
    let exe = std::env::current_exe().unwrap();
    let scratch = format!("{}/scratch/{}", verif_dir(), ctx.prop);
    let _ = std::fs::remove_dir_all(&scratch);
    std::fs::create_dir_all(&scratch).unwrap();
    if std::env::var("VERIF_SLICE_NAME").unwrap_or_default().is_empty() {
        let _ = std::fs::remove_dir_all(format!("{}/replays/{}", verif_dir(), ctx.prop));
    }
    let mut children = vec![];
    let spawn = |w: usize, append: bool| -> (usize, String, std::process::Child) {
        let out = format!("{}/w{}.json", scratch, w);
        let err = std::fs::OpenOptions::new()
            .create(true)
            .append(append)
            .write(true)
            .truncate(!append)
            .open(format!("{}/w{}.err", scratch, w))
            .unwrap();
        let mut cmd = Command::new(&exe);
        cmd.arg("--prop")
            .arg(&ctx.prop)
            .arg("--tier")
            .arg(&ctx.tier)
            .arg("--workers")
            .arg(ctx.workers.to_string())
            .arg("--worker")
            .arg(w.to_string())
            .arg("--out")
            .arg(&out);
        for e in &ctx.extra {
            cmd.arg(e);
        }
        cmd.env("VERIF_SEED", ctx.seed.to_string());
        cmd.stdout(Stdio::null()).stderr(Stdio::from(err));
        (w, out, cmd.spawn().expect("spawn worker"))
    };
    for w in 0..ctx.workers {
        children.push(spawn(w, false));
    }
    let mut agg = Agg {
        counters: BTreeMap::new(),
        flags: BTreeMap::new(),
        samples: vec![],
        violations: vec![],
        outcomes: BTreeSet::new(),
        wall_s: 0.0,
        machinery_errors: vec![],
    };
    let mut respawns_total = 0usize;
    // concurrent supervision: respawn workers that ended without a result as soon as they exit
    let mut slots: Vec<(usize, String, Option<std::process::Child>, usize, Option<std::process::ExitStatus>)> =
        children.into_iter().map(|(w, out, ch)| (w, out, Some(ch), 0usize, None)).collect();
    loop {
        let mut running = 0;
        for slot in slots.iter_mut() {
            if let Some(ch) = slot.2.as_mut() {
                match ch.try_wait() {
                    Ok(Some(st)) => {
                        slot.4 = Some(st);
                        slot.2 = None;
                        let txt = std::fs::read_to_string(&slot.1).unwrap_or_default();
                        let v: Value = serde_json::from_str(&txt).unwrap_or(Value::Null);
                        if v.get("done").is_none() && slot.3 < max_respawns {
                            slot.3 += 1;
                            respawns_total += 1;
                            let (_, _, ch2) = spawn(slot.0, true);
                            slot.2 = Some(ch2);
                            running += 1;
                        }
                    }
                    Ok(None) => running += 1,
                    Err(_) => {
                        slot.2 = None;
                    }
                }
            }
        }
        if running == 0 {
            break;
        }
        std::thread::sleep(std::time::Duration::from_millis(15));
    }
    for (w, out, _, _, status) in slots {
        let txt = std::fs::read_to_string(&out).unwrap_or_default();
        let v: Value = serde_json::from_str(&txt).unwrap_or(Value::Null);
        if v.get("done").is_none() {
            let err = std::fs::read_to_string(format!("{}/w{}.err", scratch, w)).unwrap_or_default();
            let tail: String = err.lines().rev().take(8).collect::<Vec<_>>().join(" | ");
            agg.machinery_errors
                .push(format!("worker {} ended without result (status {:?}): {}", w, status, tail));
            continue;
        }
        if let Some(m) = v["counters"].as_object() {
            for (k, x) in m {
                let x = x.as_u64().unwrap_or(0);
                if k.starts_with("max_") {
                    let e = agg.counters.entry(k.clone()).or_insert(0);
                    if x > *e {
                        *e = x;
                    }
                } else {
                    *agg.counters.entry(k.clone()).or_insert(0) += x;
                }
            }
        }
        if let Some(m) = v["flags"].as_object() {
            for (k, x) in m {
                let e = agg.flags.entry(k.clone()).or_insert(false);
                *e = *e || x.as_bool().unwrap_or(false);
            }
        }
        if let Some(a) = v["samples"].as_array() {
            for s in a {
                if agg.samples.len() < 4 {
                    agg.samples.push(s.clone());
                }
            }
        }
        if let Some(a) = v["violations"].as_array() {
            for s in a {
                agg.violations.push(s.clone());
            }
        }
        if let Some(a) = v["outcomes"].as_array() {
            for s in a {
                if let Some(s) = s.as_str() {
                    agg.outcomes.insert(s.to_string());
                }
            }
        }
    }
    agg.counters.insert("worker_restarts".into(), respawns_total as u64);
    agg.wall_s = t0.elapsed().as_secs_f64();
    agg
}

#[derive(Clone, Debug)]
pub struct Finding {
    pub property: String,
    pub status: String,
    pub signature: String,
    pub what: String,
}

pub fn load_findings() -> Vec<Finding> {
    let txt = std::fs::read_to_string(format!("{}/known_findings.json", verif_dir())).unwrap_or_default();
    let v: Value = serde_json::from_str(&txt).unwrap_or(Value::Null);
    let mut out = vec![];
    if let Some(a) = v["findings"].as_array() {
        for f in a {
            out.push(Finding {
                property: f["property"].as_str().unwrap_or("").to_string(),
                status: f["status"].as_str().unwrap_or("").to_string(),
                signature: f["signature"].as_str().unwrap_or("").to_string(),
                what: f["what"].as_str().unwrap_or("").to_string(),
            });
        }
    }
    out
}

pub struct EvidenceSpec<'a> {
    pub level: &'a str,
    pub rule: &'a str,
    pub assumptions: Vec<String>,
    /// coverage keys: name of the counter that holds states / transitions / traces validated
    pub states_key: &'a str,
    pub transitions_key: &'a str,
    pub validated_key: &'a str,
    /// flags that mean "a cap was hit"
    pub cap_flags: Vec<&'a str>,
    pub extra: Map<String, Value>,
}

/// Writes the evidence file, prints KNOWN-FINDING / VIOLATION lines and returns the exit code.
pub fn conclude(ctx: &Ctx, agg: &Agg, spec: EvidenceSpec) -> i32 {
    let findings = load_findings();
    let mut unknown = vec![];
    let mut known: BTreeMap<String, (usize, String)> = BTreeMap::new();
    for v in &agg.violations {
        let sig = v["sig"].as_str().unwrap_or("");
        let m = findings
            .iter()
            .find(|f| f.property == ctx.prop && f.status == "known" && f.signature == sig);
        match m {
            Some(f) => {
                let e = known.entry(sig.to_string()).or_insert((0, f.what.clone()));
                e.0 += 1;
            }
            None => unknown.push(v.clone()),
        }
    }
    let capped = spec.cap_flags.iter().any(|f| agg.f(f));
    let mut coverage = Map::new();
    coverage.insert("states".into(), json!(agg.c(spec.states_key)));
    coverage.insert("transitions".into(), json!(agg.c(spec.transitions_key)));
    coverage.insert("traces_validated_against_impl".into(), json!(agg.c(spec.validated_key)));
    coverage.insert("evaluations".into(), json!(agg.c(spec.transitions_key)));
    coverage.insert(
        "distinct_nontrivial".into(),
        json!(agg.c(spec.states_key).max(agg.outcomes.len() as u64)),
    );
    coverage.insert("rule".into(), json!(spec.rule));
    coverage.insert("samples".into(), json!(agg.samples));
    coverage.insert("exhaustive".into(), json!(!capped && agg.machinery_errors.is_empty()));
    coverage.insert("distinct_outcomes".into(), json!(agg.outcomes.len()));
    coverage.insert("counters".into(), json!(agg.counters));
    coverage.insert("caps".into(), json!(agg.flags));
    coverage.insert(
        "known_findings_seen".into(),
        json!(known.iter().map(|(k, v)| json!({"signature": k, "occurrences": v.0})).collect::<Vec<_>>()),
    );
    for (k, v) in spec.extra {
        coverage.insert(k, v);
    }
    let ev = json!({
        "property_id": ctx.prop,
        "tier": ctx.tier,
        "seed": ctx.seed,
        "level": spec.level,
        "coverage": coverage,
        "assumptions": spec.assumptions,
        "wall_s": agg.wall_s,
        "violations": unknown.len(),
    });
    let _ = std::fs::create_dir_all(format!("{}/evidence", verif_dir()));
    // a slice run (second build flavour of the same check) writes beside the evidence file; the front
    // end merges it into evidence/<prop>.json
    let path = match std::env::var("VERIF_SLICE_OUT") {
        Ok(p) if !p.is_empty() => p,
        _ => format!("{}/evidence/{}.json", verif_dir(), ctx.prop),
    };
    std::fs::write(&path, serde_json::to_string_pretty(&ev).unwrap()).unwrap();
    let stdout = std::io::stdout();
    let mut o = stdout.lock();
    for (sig, (n, what)) in &known {
        let _ = writeln!(o, "KNOWN-FINDING: property={} {} [{}; {} occurrences]", ctx.prop, what, sig, n);
    }
    for e in &agg.machinery_errors {
        let _ = writeln!(o, "MACHINERY-ERROR: {}", e);
    }
    let _ = writeln!(
        o,
        "{} tier={} states={} transitions={} validated={} outcomes={} wall={:.1}s capped={} violations={}",
        ctx.prop,
        ctx.tier,
        agg.c(spec.states_key),
        agg.c(spec.transitions_key),
        agg.c(spec.validated_key),
        agg.outcomes.len(),
        agg.wall_s,
        capped,
        unknown.len()
    );
    if !unknown.is_empty() {
        let mut seen = BTreeSet::new();
        for v in &unknown {
            let sig = v["sig"].as_str().unwrap_or("").to_string();
            if seen.insert(sig.clone()) {
                let _ = writeln!(
                    o,
                    "VIOLATION property={} replay={}",
                    ctx.prop,
                    v["replay"].as_str().unwrap_or("")
                );
                let d = v["detail"].as_str().unwrap_or("");
                let _ = writeln!(o, "  clause={} sig={}\n  {}", v["clause"].as_str().unwrap_or(""), sig, d.chars().take(1500).collect::<String>());
            }
        }
        return 1;
    }
    if !agg.machinery_errors.is_empty() {
        return 2;
    }
    0
}

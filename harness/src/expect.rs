//! Expected model of a document tree (what the SCXML text means), in the same canonical JSON schema
//! as dump::dump_fsm produces for a parsed model.

use crate::doc::*;
use serde_json::{json, Value};

fn src(s: &str) -> Value {
    json!({"src": s})
}

pub fn norm_descriptor(d: &str) -> String {
    let mut x = d;
    loop {
        if let Some(r) = x.strip_suffix(".*") {
            x = r;
            continue;
        }
        if let Some(r) = x.strip_suffix('.') {
            x = r;
            continue;
        }
        break;
    }
    x.to_string()
}

/// duration text -> milliseconds as documented: number followed by ms|s|m|h|d (case-insensitive)
pub fn duration_ms(d: &str) -> Option<u64> {
    let t = d.trim();
    if t.is_empty() {
        return Some(0);
    }
    let pos = t.find(|c: char| c.is_ascii_alphabetic())?;
    let (n, u) = t.split_at(pos);
    let v: f64 = n.trim().parse().ok()?;
    let f = match u.to_ascii_lowercase().as_str() {
        "ms" => 1.0,
        "s" => 1000.0,
        "m" => 60000.0,
        "h" => 3_600_000.0,
        "d" => 86_400_000.0,
        _ => return None,
    };
    let r = (v * f).round();
    if r < 0.0 {
        None
    } else {
        Some(r as u64)
    }
}

fn params(ps: &[ParamSpec]) -> Value {
    json!(ps
        .iter()
        .map(|p| json!({"name": p.name, "expr": p.expr.clone().unwrap_or_default(), "location": p.location.clone().unwrap_or_default()}))
        .collect::<Vec<_>>())
}

fn content(c: &Option<ContentSpec>) -> Value {
    match c {
        None => Value::Null,
        Some(c) => json!({"content": c.text.as_ref().map(|t| t.trim().to_string()), "expr": c.expr}),
    }
}

fn attr<'a>(attrs: &'a [(String, String)], k: &str) -> Option<&'a String> {
    attrs.iter().find(|(n, _)| n == k).map(|(_, v)| v)
}

fn opt_src(attrs: &[(String, String)], k: &str) -> Value {
    match attr(attrs, k) {
        Some(v) => src(v),
        None => Value::Null,
    }
}

fn send(attrs: &[(String, String)], ps: &[ParamSpec], c: &Option<ContentSpec>, owner: &str) -> Value {
    let idloc = attr(attrs, "idlocation").cloned().unwrap_or_default();
    let has_content = c.as_ref().map(|c| c.expr.is_some() || c.text.is_some()).unwrap_or(false);
    json!({"send": {
        "id": attr(attrs, "id").cloned().unwrap_or_default(),
        "idlocation": idloc,
        "parent_state_name": if idloc.is_empty() { Value::Null } else { json!(owner) },
        "event": opt_src(attrs, "event"), "eventexpr": opt_src(attrs, "eventexpr"),
        "target": opt_src(attrs, "target"), "targetexpr": opt_src(attrs, "targetexpr"),
        "type": opt_src(attrs, "type"), "typeexpr": opt_src(attrs, "typeexpr"),
        "delay_ms": attr(attrs, "delay").map(|d| duration_ms(d).unwrap_or(0)).unwrap_or(0),
        "delayexpr": opt_src(attrs, "delayexpr"),
        "namelist": attr(attrs, "namelist").map(|n| n.split_ascii_whitespace().map(|x| x.to_string()).collect::<Vec<_>>()).unwrap_or_default(),
        "params": params(ps),
        "content": if has_content { content(c) } else { Value::Null },
    }})
}

pub fn block(b: &Block, owner: &str) -> Value {
    json!(b.iter().map(|s| stmt(s, owner)).collect::<Vec<_>>())
}

fn if_chain(branches: &[(Expr, Block)], els: &Option<Block>, owner: &str) -> Value {
    let (c, b) = &branches[0];
    let else_part = if branches.len() > 1 {
        json!([if_chain(&branches[1..], els, owner)])
    } else {
        match els {
            Some(e) => block(e, owner),
            None => json!([]),
        }
    };
    json!({"if": src(&c.render()), "then": block(b, owner), "else": else_part})
}

fn stmt(s: &Stmt, owner: &str) -> Value {
    match s {
        Stmt::Mark(args) => json!({"script": src(&mark_src(args, None))}),
        Stmt::MarkE(args, e) => json!({"log": src(&mark_src(args, Some(e))), "label": ""}),
        Stmt::Raise(e) => json!({"raise": e}),
        Stmt::SendInternal(e) => send(
            &[("event".into(), e.clone()), ("target".into(), "#_internal".into())],
            &[],
            &None,
            owner,
        ),
        Stmt::SendSelf(e) => send(&[("event".into(), e.clone())], &[], &None, owner),
        Stmt::SendInternalExpr(x) => send(&[("eventexpr".into(), x.render()), ("target".into(), "#_internal".into())], &[], &None, owner),
        Stmt::If { branches, els } => if_chain(branches, els, owner),
        Stmt::Foreach {
            array,
            item,
            index,
            body,
        } => json!({"foreach": src(&array.render()), "item": item, "index": index.clone().unwrap_or_default(), "body": block(body, owner)}),
        Stmt::Assign(loc, e) => json!({"assign": src(loc), "expr": src(&e.render())}),
        Stmt::AssignText(loc, t) => {
            // documented transformation: the character data becomes a string literal
            let lit = format!("\"{}\"", t.trim().replace('"', "\\\"").replace('\n', " "));
            json!({"assign": src(loc), "expr": src(&lit)})
        }
        Stmt::Log(e) => json!({"log": src(&e.render()), "label": ""}),
        Stmt::LogL(l, e) => json!({"log": src(e), "label": l}),
        Stmt::Script(e) => json!({"script": src(e.render().trim())}),
        Stmt::ScriptText(t) => json!({"script": src(t.trim())}),
        Stmt::RawXml(_) => json!("<raw>"),
        Stmt::SendX(sp) => send(&sp.attrs, &sp.params, &sp.content, owner),
        Stmt::CancelX { sendid, sendidexpr } => json!({
            "cancel": sendid.clone().unwrap_or_default(),
            "sendidexpr": match sendidexpr { Some(x) => src(x), None => Value::Null },
        }),
    }
}

fn sname(d: &Doc, n: Nx) -> Value {
    if n == 0 {
        json!("<root>")
    } else {
        json!(d.nodes[n].name)
    }
}

fn trans(d: &Doc, t: &Trans, source: Nx, owner: &str, force_type: Option<&str>) -> Value {
    let events: Vec<String> = t
        .events
        .iter()
        .flat_map(|e| e.split_whitespace().map(|x| norm_descriptor(x)).collect::<Vec<_>>())
        .collect();
    json!({
        "events": events,
        "wildcard": events.iter().any(|e| e == "*"),
        "cond": match &t.cond { Some(c) => src(&c.render()), None => json!({"null": true}) },
        "source": sname(d, source),
        "targets": t.targets.iter().map(|x| sname(d, *x)).collect::<Vec<_>>(),
        "type": force_type.unwrap_or(if t.internal { "internal" } else { "external" }),
        "content": block(&t.content, owner),
    })
}

pub fn expected_dump(d: &Doc) -> Value {
    let mut states = vec![];
    for n in 0..d.nodes.len() {
        let node = &d.nodes[n];
        let owner = if n == 0 { "<root>".to_string() } else { node.name.clone() };
        let kind = match node.kind {
            Kind::Root | Kind::State => "state",
            Kind::Parallel => "parallel",
            Kind::Final => "final",
            Kind::HistDeep => "history-deep",
            Kind::HistShallow => "history-shallow",
        };
        let child_states = d.child_states(n);
        let initial = if let Some(t) = &node.initial_attr {
            json!({"events": [], "wildcard": false, "cond": {"null": true}, "source": sname(d, n),
                   "targets": t.iter().map(|x| sname(d, *x)).collect::<Vec<_>>(), "type": "internal", "content": []})
        } else if let Some((t, b)) = &node.initial_elem {
            json!({"events": [], "wildcard": false, "cond": {"null": true}, "source": sname(d, n),
                   "targets": t.iter().map(|x| sname(d, *x)).collect::<Vec<_>>(), "type": "external", "content": block(b, &owner)})
        } else if !child_states.is_empty() && matches!(node.kind, Kind::Root | Kind::State) {
            json!({"events": [], "wildcard": false, "cond": {"null": true}, "source": sname(d, n),
                   "targets": [sname(d, child_states[0])], "type": "external", "content": []})
        } else {
            Value::Null
        };
        let mut data: Vec<(String, Value)> = node
            .data
            .iter()
            .map(|(id, e)| (id.clone(), src(&e.as_ref().map(|x| x.render()).unwrap_or_default())))
            .collect();
        for (id, t) in &node.data_text {
            data.push((id.clone(), src(t.trim())));
        }
        data.sort_by(|a, b| a.0.cmp(&b.0));
        let parent = match node.parent {
            None => Value::Null,
            Some(p) => sname(d, p),
        };
        let invokes: Vec<Value> = node
            .invokes
            .iter()
            .map(|i| {
                let id = attr(&i.attrs, "id").cloned().unwrap_or_default();
                json!({
                    "id": id, "idlocation": attr(&i.attrs, "idlocation").cloned().unwrap_or_default(),
                    "parent_state_name": if id.is_empty() { json!(node.name) } else { Value::Null },
                    "type": opt_src(&i.attrs, "type"), "typeexpr": opt_src(&i.attrs, "typeexpr"),
                    "src": opt_src(&i.attrs, "src"), "srcexpr": opt_src(&i.attrs, "srcexpr"),
                    "autoforward": attr(&i.attrs, "autoforward").map(|v| v.eq_ignore_ascii_case("true")).unwrap_or(false),
                    "namelist": attr(&i.attrs, "namelist").map(|n| n.split_ascii_whitespace().map(|x| x.to_string()).collect::<Vec<_>>()).unwrap_or_default(),
                    "params": params(&i.params),
                    "content": content(&i.content),
                    "finalize": match &i.finalize { Some(b) => block(b, &owner), None => json!([]) },
                })
            })
            .collect();
        let donedata = match &node.donedata {
            None => Value::Null,
            Some(dd) => json!({
                "content": match &dd.content { Some(c) => json!({"content": Value::Null, "expr": c.render()}), None => Value::Null },
                "params": dd.params.iter().map(|(n, e)| json!({"name": n, "expr": e.render(), "location": ""})).collect::<Vec<_>>(),
            }),
        };
        states.push(json!({
            "name": sname(d, n),
            "declared": true,
            "kind": kind,
            "parent": parent,
            "children": child_states.iter().map(|c| sname(d, *c)).collect::<Vec<_>>(),
            "history": d.history_children(n).iter().map(|c| sname(d, *c)).collect::<Vec<_>>(),
            "initial": initial,
            "onentry": node.onentry.iter().map(|b| block(b, &owner)).collect::<Vec<_>>(),
            "onexit": node.onexit.iter().map(|b| block(b, &owner)).collect::<Vec<_>>(),
            "transitions": node.trans.iter().map(|t| trans(d, t, n, &owner, None)).collect::<Vec<_>>(),
            "transitions_in_document_order": true,
            "invoke": invokes,
            "data": data,
            "donedata": donedata,
        }));
    }
    let ntrans: usize = d
        .nodes
        .iter()
        .enumerate()
        .map(|(n, node)| {
            let init = if node.initial_attr.is_some()
                || node.initial_elem.is_some()
                || (!d.child_states(n).is_empty() && matches!(node.kind, Kind::Root | Kind::State))
            {
                1
            } else {
                0
            };
            node.trans.len() + init
        })
        .sum();
    json!({
        "name": d.name,
        "datamodel": d.datamodel,
        "binding": if d.late_binding { "Late" } else { "Early" },
        "script": match &d.script { Some(e) => json!([{"script": src(e.render().trim())}]), None => json!([]) },
        "states": states,
        "transition_count": ntrans,
    })
}

//! Reference SCXML interpreter (oracle). Written from the W3C Recommendation's algorithm text over
//! the generator's document tree; no threads, no locks, cloneable state.

use crate::doc::*;
use std::collections::{BTreeMap, BTreeSet, VecDeque};

#[derive(Clone, Debug, PartialEq, Eq, Hash, PartialOrd, Ord)]
pub enum Val {
    Int(i64),
    Str(String),
    Bool(bool),
    Null,
    /// declared but without value (Data::None)
    Undef,
    Arr(Vec<i64>),
}

impl Val {
    pub fn show(&self) -> String {
        match self {
            Val::Int(i) => i.to_string(),
            Val::Str(s) => s.clone(),
            Val::Bool(b) => b.to_string(),
            Val::Null => "null".into(),
            Val::Undef => "".into(),
            Val::Arr(a) => format!(
                "[{}]",
                a.iter().map(|x| x.to_string()).collect::<Vec<_>>().join(",")
            ),
        }
    }
    pub fn truthy(&self) -> bool {
        match self {
            Val::Int(i) => *i != 0,
            Val::Str(s) => !s.is_empty(),
            Val::Bool(b) => *b,
            Val::Null | Val::Undef => false,
            Val::Arr(_) => true,
        }
    }
}

#[derive(Clone, Debug, PartialEq, Eq, Hash)]
pub enum EvKind {
    External,
    Internal,
    Platform,
}

#[derive(Clone, Debug, PartialEq, Eq, Hash)]
pub struct Ev {
    pub name: String,
    pub kind: EvKind,
    pub data: Vec<(String, Val)>,
    pub content: Option<Val>,
}

impl Ev {
    pub fn ext(name: &str) -> Ev {
        Ev {
            name: name.to_string(),
            kind: EvKind::External,
            data: vec![],
            content: None,
        }
    }
    pub fn internal(name: &str) -> Ev {
        Ev {
            name: name.to_string(),
            kind: EvKind::Internal,
            data: vec![],
            content: None,
        }
    }
    pub fn platform(name: &str) -> Ev {
        Ev {
            name: name.to_string(),
            kind: EvKind::Platform,
            data: vec![],
            content: None,
        }
    }
}

#[derive(Clone, Debug, PartialEq, Eq, Hash)]
pub enum Obs {
    XRecv(String),
    IRecv(String),
    ISend(String),
    /// selected (non-empty) optimal transition set: (source state, index in the source's transition list)
    Sel(Vec<(String, usize)>),
    Exit(String),
    Enter(String),
    Mark(Vec<String>),
}

/// canonical rendering of an event with its payload, shared by reference and recorder normalisation
pub fn fmt_event(name: &str, params: &[(String, String)], content: Option<&str>) -> String {
    let mut s = name.to_string();
    if !params.is_empty() {
        let mut p: Vec<String> = params.iter().map(|(k, v)| format!("{}={}", k, v)).collect();
        p.sort();
        s.push_str(&format!("{{{}}}", p.join(",")));
    }
    if let Some(c) = content {
        s.push_str(&format!("<{}>", c));
    }
    s
}

impl Ev {
    pub fn show(&self) -> String {
        let p: Vec<(String, String)> = self.data.iter().map(|(k, v)| (k.clone(), v.show())).collect();
        let c = self.content.as_ref().map(|c| c.show());
        fmt_event(&self.name, &p, c.as_deref())
    }
}

pub const CANCEL_EVENT: &str = "error.platform.cancel";

#[derive(Clone, Debug, PartialEq, Eq, Hash)]
pub struct RefState {
    pub cfg: BTreeSet<Nx>,
    pub hist: BTreeMap<Nx, Vec<Nx>>,
    pub vars: BTreeMap<String, Val>,
    pub readonly: BTreeSet<String>,
    pub entered_once: BTreeSet<Nx>,
    pub iq: VecDeque<Ev>,
    pub xq: VecDeque<Ev>,
    pub running: bool,
    pub event: Option<Ev>,
    pub final_cfg: Option<Vec<Nx>>,
}

pub struct Ref<'a> {
    pub doc: &'a Doc,
    pub st: RefState,
    pub out: Vec<Obs>,
    /// number of dequeue attempts on the external queue the implementation is expected to make
    pub dequeues: usize,
    /// the macrostep did not terminate within the step budget (document never goes idle)
    pub diverged: bool,
}

type TRef = (Nx, usize);

impl<'a> Ref<'a> {
    pub fn new(doc: &'a Doc) -> Ref<'a> {
        Ref {
            doc,
            st: RefState {
                cfg: BTreeSet::new(),
                hist: BTreeMap::new(),
                vars: BTreeMap::new(),
                readonly: BTreeSet::new(),
                entered_once: BTreeSet::new(),
                iq: VecDeque::new(),
                xq: VecDeque::new(),
                running: true,
                event: None,
                final_cfg: None,
            },
            out: vec![],
            dequeues: 0,
            diverged: false,
        }
    }

    pub fn from_state(doc: &'a Doc, st: RefState) -> Ref<'a> {
        Ref {
            doc,
            st,
            out: vec![],
            dequeues: 0,
            diverged: false,
        }
    }

    pub fn take_out(&mut self) -> Vec<Obs> {
        std::mem::take(&mut self.out)
    }

    // ------------------------------------------------------------------ start-up

    /// interpret(): data model initialisation, global script, initial entry, first macrostep.
    pub fn start(&mut self) {
        let d = self.doc;
        self.st.vars.insert("_sessionid".into(), Val::Int(0));
        self.st.readonly.insert("_sessionid".into());
        self.st.vars.insert("_name".into(), Val::Str(d.name.clone()));
        self.st.readonly.insert("_name".into());
        self.st.readonly.insert("_event".into());
        self.st.readonly.insert("_ioprocessors".into());
        // data model initialisation, document order
        for n in 0..d.nodes.len() {
            if d.is_history(n) {
                continue;
            }
            let set = !d.late_binding || n == 0;
            self.init_data(n, set);
        }
        if let Some(sc) = &d.script {
            // raw global scripts are opaque for the reference (generators only use harmless ones)
            if !matches!(sc, Expr::Raw(_)) && self.eval(sc).is_err() {
                self.error_execution();
            }
        }
        // initial transition of the root
        let targets = d.initial_targets(0);
        self.enter_states(&[(targets, 0, vec![], false)]);
        self.finish_macrostep();
        self.drain_external();
    }

    fn init_data(&mut self, n: Nx, set: bool) {
        let d = self.doc;
        for (id, e) in &d.nodes[n].data {
            if set {
                match e {
                    Some(e) => match self.eval(e) {
                        Ok(v) => {
                            self.st.vars.insert(id.clone(), v);
                        }
                        Err(_) => {
                            self.st.vars.insert(id.clone(), Val::Undef);
                            self.error_execution();
                        }
                    },
                    None => {
                        self.st.vars.insert(id.clone(), Val::Null);
                    }
                }
            } else {
                self.st.vars.insert(id.clone(), Val::Undef);
            }
        }
    }

    // ------------------------------------------------------------------ events

    /// Deliver one external event from the host and run until the session is idle again
    /// (including external events the session sent to itself).
    pub fn step(&mut self, ev: Ev) {
        if !self.st.running {
            return;
        }
        self.st.xq.push_back(ev);
        self.drain_external();
    }

    fn drain_external(&mut self) {
        let mut guard = 0;
        while self.st.running {
            guard += 1;
            if guard > 100 {
                self.diverged = true;
                self.st.running = false;
                return;
            }
            let ev = match self.st.xq.pop_front() {
                Some(e) => e,
                None => break,
            };
            self.out.push(Obs::XRecv(ev.show()));
            if ev.name == CANCEL_EVENT {
                self.st.running = false;
                self.exit_interpreter();
                return;
            }
            self.st.event = Some(ev.clone());
            let sel = self.select(Some(&ev));
            if !sel.is_empty() {
                self.microstep(&sel);
            }
            self.finish_macrostep();
        }
    }

    /// The inner loop of mainEventLoop: eventless transitions first, else oldest internal event.
    fn finish_macrostep(&mut self) {
        let mut guard = 0;
        while self.st.running {
            guard += 1;
            if guard > 300 {
                self.diverged = true;
                self.st.running = false;
                return;
            }
            let mut sel = self.select(None);
            if sel.is_empty() {
                match self.st.iq.pop_front() {
                    None => break,
                    Some(ev) => {
                        self.out.push(Obs::IRecv(ev.show()));
                        self.st.event = Some(ev.clone());
                        sel = self.select(Some(&ev));
                    }
                }
            }
            if !sel.is_empty() {
                self.microstep(&sel);
            }
        }
        if !self.st.running {
            self.exit_interpreter();
        } else {
            // the implementation will now block in externalQueue.dequeue
            self.dequeues += 1;
        }
    }

    fn exit_interpreter(&mut self) {
        if self.st.final_cfg.is_some() {
            return;
        }
        let d = self.doc;
        let cfg: Vec<Nx> = self.st.cfg.iter().cloned().collect();
        self.st.final_cfg = Some(cfg.clone());
        for s in cfg.iter().rev() {
            for b in &d.nodes[*s].onexit {
                self.exec_block(b);
            }
            self.st.cfg.remove(s);
        }
    }

    // ------------------------------------------------------------------ selection

    pub fn name_match(desc: &str, name: &str) -> bool {
        // normalise descriptor: strip trailing ".*" and "."
        let mut d = desc;
        loop {
            if let Some(x) = d.strip_suffix(".*") {
                d = x;
                continue;
            }
            if let Some(x) = d.strip_suffix('.') {
                d = x;
                continue;
            }
            break;
        }
        if d == "*" {
            return true;
        }
        let dt: Vec<&str> = d.split('.').collect();
        let nt: Vec<&str> = name.split('.').collect();
        dt.len() <= nt.len() && dt.iter().zip(nt.iter()).all(|(a, b)| a == b)
    }

    fn select(&mut self, ev: Option<&Ev>) -> Vec<TRef> {
        let d = self.doc;
        let atomic: Vec<Nx> = self.st.cfg.iter().cloned().filter(|s| d.is_atomic(*s)).collect();
        let mut enabled: Vec<TRef> = vec![];
        for a in atomic {
            let mut chain = vec![a];
            chain.extend(d.ancestors(a));
            'outer: for s in chain {
                for (i, t) in d.nodes[s].trans.iter().enumerate() {
                    let name_ok = match ev {
                        None => t.events.is_empty(),
                        Some(e) => !t.events.is_empty() && t.events.iter().any(|x| Self::name_match(x, &e.name)),
                    };
                    if !name_ok {
                        continue;
                    }
                    let cond_ok = match &t.cond {
                        None => true,
                        Some(c) => match self.eval(c) {
                            Ok(v) => v.truthy(),
                            Err(_) => {
                                self.error_execution();
                                false
                            }
                        },
                    };
                    if cond_ok {
                        if !enabled.contains(&(s, i)) {
                            enabled.push((s, i));
                        }
                        break 'outer;
                    }
                }
            }
        }
        self.remove_conflicting(enabled)
    }

    fn trans(&self, t: TRef) -> &'a Trans {
        &self.doc.nodes[t.0].trans[t.1]
    }

    fn remove_conflicting(&self, enabled: Vec<TRef>) -> Vec<TRef> {
        let d = self.doc;
        let mut filtered: Vec<TRef> = vec![];
        for t1 in enabled {
            let mut preempted = false;
            let mut to_remove = vec![];
            let x1 = self.exit_set(&[(self.trans(t1).targets.clone(), t1.0, self.trans(t1).internal)]);
            for t2 in &filtered {
                let x2 = self.exit_set(&[(self.trans(*t2).targets.clone(), t2.0, self.trans(*t2).internal)]);
                if x1.iter().any(|s| x2.contains(s)) {
                    if d.is_descendant(t1.0, t2.0) {
                        to_remove.push(*t2);
                    } else {
                        preempted = true;
                        break;
                    }
                }
            }
            if !preempted {
                filtered.retain(|x| !to_remove.contains(x));
                filtered.push(t1);
            }
        }
        filtered
    }

    // ------------------------------------------------------------------ sets

    fn effective_targets(&self, targets: &[Nx]) -> Vec<Nx> {
        let d = self.doc;
        let mut r: Vec<Nx> = vec![];
        for t in targets {
            if d.is_history(*t) {
                match self.st.hist.get(t) {
                    Some(v) => {
                        for x in v {
                            if !r.contains(x) {
                                r.push(*x);
                            }
                        }
                    }
                    None => {
                        let dt = &d.nodes[*t].trans[0].targets;
                        for x in self.effective_targets(dt) {
                            if !r.contains(&x) {
                                r.push(x);
                            }
                        }
                    }
                }
            } else if !r.contains(t) {
                r.push(*t);
            }
        }
        r
    }

    /// domain: None = no targets (targetless), Some(node)
    fn domain(&self, targets: &[Nx], source: Nx, internal: bool) -> Option<Nx> {
        let d = self.doc;
        let ts = self.effective_targets(targets);
        if ts.is_empty() {
            return None;
        }
        if internal && d.is_compound(source) && ts.iter().all(|s| d.is_descendant(*s, source)) {
            return Some(source);
        }
        // least common compound ancestor of source and targets
        for anc in d.ancestors(source) {
            if (d.is_compound(anc) || anc == 0) && ts.iter().all(|s| d.is_descendant(*s, anc)) {
                return Some(anc);
            }
        }
        Some(0)
    }

    fn exit_set(&self, ts: &[(Vec<Nx>, Nx, bool)]) -> BTreeSet<Nx> {
        let d = self.doc;
        let mut r = BTreeSet::new();
        for (targets, source, internal) in ts {
            if targets.is_empty() {
                continue;
            }
            if let Some(dom) = self.domain(targets, *source, *internal) {
                for s in &self.st.cfg {
                    if d.is_descendant(*s, dom) {
                        r.insert(*s);
                    }
                }
            }
        }
        r
    }

    fn add_descendants(
        &self,
        s: Nx,
        to_enter: &mut BTreeSet<Nx>,
        default_entry: &mut BTreeSet<Nx>,
        hist_content: &mut BTreeMap<Nx, Block>,
    ) {
        let d = self.doc;
        if d.is_history(s) {
            let parent = d.nodes[s].parent.unwrap();
            match self.st.hist.get(&s) {
                Some(v) => {
                    for x in v {
                        self.add_descendants(*x, to_enter, default_entry, hist_content);
                    }
                    for x in v {
                        self.add_ancestors(*x, parent, to_enter, default_entry, hist_content);
                    }
                }
                None => {
                    let t = &d.nodes[s].trans[0];
                    hist_content.insert(parent, t.content.clone());
                    for x in &t.targets {
                        self.add_descendants(*x, to_enter, default_entry, hist_content);
                    }
                    for x in &t.targets {
                        self.add_ancestors(*x, parent, to_enter, default_entry, hist_content);
                    }
                }
            }
        } else {
            to_enter.insert(s);
            if d.is_compound(s) {
                default_entry.insert(s);
                let it = d.initial_targets(s);
                for x in &it {
                    self.add_descendants(*x, to_enter, default_entry, hist_content);
                }
                for x in &it {
                    self.add_ancestors(*x, s, to_enter, default_entry, hist_content);
                }
            } else if d.is_parallel(s) {
                for c in d.child_states(s) {
                    if !to_enter.iter().any(|x| d.is_descendant(*x, c)) {
                        self.add_descendants(c, to_enter, default_entry, hist_content);
                    }
                }
            }
        }
    }

    fn add_ancestors(
        &self,
        s: Nx,
        ancestor: Nx,
        to_enter: &mut BTreeSet<Nx>,
        default_entry: &mut BTreeSet<Nx>,
        hist_content: &mut BTreeMap<Nx, Block>,
    ) {
        let d = self.doc;
        for anc in d.ancestors(s) {
            if anc == ancestor || anc == 0 {
                break;
            }
            // stop if ancestor is not an ancestor of s at all (then all ancestors up to root)
            to_enter.insert(anc);
            if d.is_parallel(anc) {
                for c in d.child_states(anc) {
                    if !to_enter.iter().any(|x| d.is_descendant(*x, c)) {
                        self.add_descendants(c, to_enter, default_entry, hist_content);
                    }
                }
            }
        }
    }

    // ------------------------------------------------------------------ microstep

    fn microstep(&mut self, sel: &[TRef]) {
        let d = self.doc;
        self.out.push(Obs::Sel(
            sel.iter().map(|t| (d.nodes[t.0].name.clone(), t.1)).collect(),
        ));
        let specs: Vec<(Vec<Nx>, Nx, bool)> = sel
            .iter()
            .map(|t| (self.trans(*t).targets.clone(), t.0, self.trans(*t).internal))
            .collect();
        // exit
        let exit = self.exit_set(&specs);
        let exit_list: Vec<Nx> = exit.iter().rev().cloned().collect();
        for s in &exit_list {
            for h in d.history_children(*s) {
                let v: Vec<Nx> = if d.nodes[h].kind == Kind::HistDeep {
                    self.st
                        .cfg
                        .iter()
                        .cloned()
                        .filter(|x| d.is_atomic(*x) && d.is_descendant(*x, *s))
                        .collect()
                } else {
                    self.st
                        .cfg
                        .iter()
                        .cloned()
                        .filter(|x| d.nodes[*x].parent == Some(*s))
                        .collect()
                };
                self.st.hist.insert(h, v);
            }
        }
        for s in &exit_list {
            self.out.push(Obs::Exit(d.nodes[*s].name.clone()));
            for b in &d.nodes[*s].onexit {
                self.exec_block(b);
            }
            self.st.cfg.remove(s);
        }
        // transition content
        for t in sel {
            let c = self.trans(*t).content.clone();
            self.exec_block(&c);
        }
        // enter
        let specs2: Vec<(Vec<Nx>, Nx, Block, bool)> = sel
            .iter()
            .map(|t| (self.trans(*t).targets.clone(), t.0, vec![], self.trans(*t).internal))
            .collect();
        self.enter_states(&specs2);
    }

    /// specs: (targets, source, _unused, internal)
    fn enter_states(&mut self, specs: &[(Vec<Nx>, Nx, Block, bool)]) {
        let d = self.doc;
        let mut to_enter = BTreeSet::new();
        let mut default_entry = BTreeSet::new();
        let mut hist_content: BTreeMap<Nx, Block> = BTreeMap::new();
        for (targets, source, _c, internal) in specs {
            for s in targets {
                self.add_descendants(*s, &mut to_enter, &mut default_entry, &mut hist_content);
            }
            if let Some(anc) = self.domain(targets, *source, *internal) {
                for s in self.effective_targets(targets) {
                    self.add_ancestors(s, anc, &mut to_enter, &mut default_entry, &mut hist_content);
                }
            }
        }
        for s in to_enter.iter() {
            self.out.push(Obs::Enter(d.nodes[*s].name.clone()));
            self.st.cfg.insert(*s);
            if d.late_binding && !self.st.entered_once.contains(s) {
                self.init_data(*s, true);
            }
            self.st.entered_once.insert(*s);
            for b in &d.nodes[*s].onentry {
                self.exec_block(b);
            }
            if default_entry.contains(s) {
                if let Some((_, b)) = &d.nodes[*s].initial_elem {
                    self.exec_block(b);
                }
            }
            if let Some(b) = hist_content.get(s) {
                let b = b.clone();
                self.exec_block(&b);
            }
            if d.is_final(*s) {
                let parent = d.nodes[*s].parent.unwrap();
                if parent == 0 {
                    self.st.running = false;
                } else {
                    let mut ev = Ev {
                        name: format!("done.state.{}", d.nodes[parent].name),
                        kind: EvKind::External, // rFSM documents this as open; type is not compared
                        data: vec![],
                        content: None,
                    };
                    if let Some(dd) = &d.nodes[*s].donedata {
                        for (n, e) in &dd.params {
                            match self.eval(e) {
                                Ok(v) => ev.data.push((n.clone(), v)),
                                Err(_) => self.error_execution(),
                            }
                        }
                        if let Some(c) = &dd.content {
                            match self.eval(c) {
                                Ok(v) => ev.content = Some(v),
                                Err(_) => self.error_execution(),
                            }
                        }
                    }
                    self.out.push(Obs::ISend(ev.name.clone()));
                    self.st.iq.push_back(ev);
                    if let Some(gp) = d.nodes[parent].parent {
                        if d.is_parallel(gp) && d.child_states(gp).iter().all(|c| self.in_final_state(*c)) {
                            let name = format!("done.state.{}", d.nodes[gp].name);
                            self.out.push(Obs::ISend(name.clone()));
                            self.st.iq.push_back(Ev {
                                name,
                                kind: EvKind::External,
                                data: vec![],
                                content: None,
                            });
                        }
                    }
                }
            }
        }
    }

    fn in_final_state(&self, s: Nx) -> bool {
        let d = self.doc;
        if d.is_compound(s) {
            d.child_states(s)
                .iter()
                .any(|c| d.is_final(*c) && self.st.cfg.contains(c))
        } else if d.is_parallel(s) {
            d.child_states(s).iter().all(|c| self.in_final_state(*c))
        } else {
            false
        }
    }

    // ------------------------------------------------------------------ executable content

    fn error_execution(&mut self) {
        self.st.iq.push_back(Ev::platform("error.execution"));
    }

    /// returns false when the block was aborted by an error
    pub fn exec_block(&mut self, b: &Block) -> bool {
        for st in b {
            if !self.exec_stmt(st) {
                return false;
            }
        }
        true
    }

    fn exec_stmt(&mut self, st: &Stmt) -> bool {
        match st {
            Stmt::Mark(args) => {
                self.out.push(Obs::Mark(args.clone()));
                true
            }
            Stmt::MarkE(args, e) => match self.eval(e) {
                Ok(v) => {
                    let mut a = args.clone();
                    a.push(v.show());
                    self.out.push(Obs::Mark(a));
                    true
                }
                Err(_) => {
                    self.error_execution();
                    false
                }
            },
            Stmt::Raise(e) => {
                self.st.iq.push_back(Ev::internal(e));
                true
            }
            Stmt::SendInternal(e) => {
                self.st.iq.push_back(Ev::internal(e));
                true
            }
            Stmt::SendSelf(e) => {
                self.st.xq.push_back(Ev::ext(e));
                true
            }
            Stmt::SendInternalExpr(x) => match self.eval(x) {
                Ok(Val::Str(name)) => {
                    self.st.iq.push_back(Ev::internal(&name));
                    true
                }
                _ => {
                    self.error_execution();
                    false
                }
            },
            Stmt::If { branches, els } => {
                for (c, b) in branches {
                    let ok = match self.eval(c) {
                        Ok(v) => v.truthy(),
                        Err(_) => {
                            self.error_execution();
                            false
                        }
                    };
                    if ok {
                        return self.exec_block(b);
                    }
                }
                if let Some(b) = els {
                    return self.exec_block(b);
                }
                true
            }
            Stmt::Foreach {
                array,
                item,
                index,
                body,
            } => match self.eval(array) {
                Ok(Val::Arr(a)) => {
                    if self.st.readonly.contains(item) {
                        self.error_execution();
                        return false;
                    }
                    // the item (and index) variables are created when absent
                    self.st.vars.entry(item.clone()).or_insert(Val::Null);
                    for (i, x) in a.iter().enumerate() {
                        self.st.vars.insert(item.clone(), Val::Int(*x));
                        if let Some(ix) = index {
                            self.st.vars.insert(ix.clone(), Val::Int(i as i64));
                        }
                        if !self.exec_block(body) {
                            return false;
                        }
                    }
                    true
                }
                _ => {
                    self.error_execution();
                    false
                }
            },
            Stmt::Assign(loc, e) => {
                if !self.st.vars.contains_key(loc) || self.st.readonly.contains(loc) {
                    self.error_execution();
                    return false;
                }
                match self.eval(e) {
                    Ok(v) if v != Val::Undef => {
                        self.st.vars.insert(loc.clone(), v);
                        true
                    }
                    _ => {
                        self.error_execution();
                        false
                    }
                }
            }
            Stmt::Log(e) | Stmt::Script(e) => match self.eval(e) {
                Ok(_) => true,
                Err(_) => {
                    self.error_execution();
                    false
                }
            },
            Stmt::RawXml(_)
            | Stmt::SendX(_)
            | Stmt::CancelX { .. }
            | Stmt::ScriptText(_)
            | Stmt::AssignText(..)
            | Stmt::LogL(..) => true,
        }
    }

    pub fn eval(&self, e: &Expr) -> Result<Val, String> {
        match e {
            Expr::Int(i) => Ok(Val::Int(*i)),
            Expr::Str(s) => Ok(Val::Str(s.clone())),
            Expr::Bool(b) => Ok(Val::Bool(*b)),
            Expr::Var(v) => self.st.vars.get(v).cloned().ok_or_else(|| "undefined".to_string()),
            Expr::VarPlus(v, k) => match self.st.vars.get(v) {
                Some(Val::Int(i)) => Ok(Val::Int(i.saturating_add(*k))),
                _ => Err("type".into()),
            },
            Expr::VarEq(v, k) => match self.st.vars.get(v) {
                Some(Val::Int(i)) => Ok(Val::Bool(*i == *k)),
                Some(_) => Ok(Val::Bool(false)),
                None => Err("undefined".into()),
            },
            Expr::VarLt(v, k) => match self.st.vars.get(v) {
                Some(Val::Int(i)) => Ok(Val::Bool(*i < *k)),
                Some(_) => Ok(Val::Bool(false)),
                None => Err("undefined".into()),
            },
            Expr::In(s) => Ok(Val::Bool(match self.doc.by_name(s) {
                Some(n) => self.st.cfg.contains(&n),
                None => false,
            })),
            Expr::NotIn(s) => Ok(Val::Bool(!match self.doc.by_name(s) {
                Some(n) => self.st.cfg.contains(&n),
                None => false,
            })),
            Expr::Bad | Expr::BadSyntax => Err("bad".into()),
            Expr::EvName => match &self.st.event {
                Some(ev) => Ok(Val::Str(ev.name.clone())),
                None => Err("no event".into()),
            },
            Expr::EvNameEq(s) => match &self.st.event {
                Some(ev) => Ok(Val::Bool(ev.name == *s)),
                None => Err("no event".into()),
            },
            Expr::EvData(p) => match &self.st.event {
                Some(ev) => ev
                    .data
                    .iter()
                    .find(|(n, _)| n == p)
                    .map(|(_, v)| v.clone())
                    .ok_or_else(|| "no member".to_string()),
                None => Err("no event".into()),
            },
            Expr::Arr(a) => Ok(Val::Arr(a.clone())),
            Expr::Raw(_) => Err("raw expression not evaluable by reference".into()),
        }
    }
}


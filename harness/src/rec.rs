//! Recording tracer + `mark` action: the hook-free observation seam into real rFSM sessions.

use rufsm::actions::Action;
use rufsm::datamodel::Data;
use rufsm::fsm::{Event, GlobalData, State};
use rufsm::tracer::{TraceMode, Tracer, TracerFactory};
use std::fmt::Display;
use std::sync::atomic::{AtomicU32, Ordering};
use std::sync::{Arc, Condvar, Mutex};
use std::thread::ThreadId;
use std::time::{Duration, Instant};

#[derive(Clone, Debug, PartialEq)]
pub struct EvInfo {
    pub name: String,
    pub etype: String,
    pub sendid: Option<String>,
    pub origin: Option<String>,
    pub origintype: Option<String>,
    pub invokeid: Option<String>,
    pub params: Option<Vec<(String, String)>>,
    /// data-model type of each parameter value (Data variant name), same order as `params`
    pub ptypes: Vec<(String, &'static str)>,
    pub content: Option<String>,
}

pub fn data_kind(d: &rufsm::datamodel::Data) -> &'static str {
    use rufsm::datamodel::Data;
    match d {
        Data::Integer(_) => "Integer",
        Data::Double(_) => "Double",
        Data::String(_) => "String",
        Data::Boolean(_) => "Boolean",
        Data::Array(_) => "Array",
        Data::Map(_) => "Map",
        Data::Null() => "Null",
        Data::Error(_) => "Error",
        Data::Source(_) => "Source",
        Data::None() => "None",
    }
}

impl EvInfo {
    pub fn of(e: &Event) -> EvInfo {
        EvInfo {
            name: e.name.clone(),
            etype: e.etype.name().to_string(),
            sendid: e.sendid.clone(),
            origin: e.origin.clone(),
            origintype: e.origin_type.clone(),
            invokeid: e.invoke_id.clone(),
            params: e
                .param_values
                .as_ref()
                .map(|v| v.iter().map(|p| (p.name.clone(), p.value.to_string())).collect()),
            ptypes: e
                .param_values
                .as_ref()
                .map(|v| v.iter().map(|p| (p.name.clone(), data_kind(&p.value))).collect())
                .unwrap_or_default(),
            content: e.content.as_ref().map(|c| c.to_string()),
        }
    }
}

#[derive(Clone, Debug, PartialEq)]
pub enum Rec {
    Enter(String),
    Exit(String),
    MEnter(String),
    MExit(String),
    Sel(Vec<u32>),
    ISend(String),
    IRecv(EvInfo),
    XRecv(EvInfo),
    Mark { args: Vec<String>, cfg: Vec<u32>, session: u32 },
}

thread_local! {
    /// set by the controlled scheduler: OS threads are pooled there, the logical thread is what counts
    static LOGICAL_THREAD: std::cell::Cell<Option<u64>> = const { std::cell::Cell::new(None) };
}

pub fn set_logical_thread(id: Option<u64>) {
    LOGICAL_THREAD.with(|l| l.set(id));
}

#[derive(Clone, Debug, PartialEq)]
enum ThreadKey {
    Os(ThreadId),
    Logical(u64),
}

#[derive(Default)]
pub struct Inner {
    pub recs: Vec<(u32, Rec)>,
    tids: Vec<ThreadKey>,
    /// per thread index: number of times the idle point (externalQueue.dequeue entered) was reached
    pub idle: Vec<usize>,
    /// per thread index: interpret() returned
    pub ended: Vec<bool>,
    /// per thread index: the recorder was dropped (session thread finished or unwound)
    pub dropped: Vec<bool>,
}

impl Inner {
    fn tix(&mut self) -> u32 {
        let me = match LOGICAL_THREAD.with(|l| l.get()) {
            Some(l) => ThreadKey::Logical(l),
            None => ThreadKey::Os(std::thread::current().id()),
        };
        if let Some(p) = self.tids.iter().position(|t| *t == me) {
            return p as u32;
        }
        self.tids.push(me);
        self.idle.push(0);
        self.ended.push(false);
        self.dropped.push(false);
        (self.tids.len() - 1) as u32
    }
    pub fn threads(&self) -> usize {
        self.tids.len()
    }
}

#[derive(Default)]
pub struct RunLog {
    pub inner: Mutex<Inner>,
    pub cv: Condvar,
}

impl RunLog {
    pub fn new() -> Arc<RunLog> {
        Arc::new(RunLog::default())
    }

    fn push(&self, r: Rec) -> u32 {
        let mut g = self.inner.lock().unwrap_or_else(|e| e.into_inner());
        let t = g.tix();
        g.recs.push((t, r));
        t
    }

    /// Wait until pred holds. Returns false on timeout.
    pub fn wait<F: Fn(&Inner) -> bool>(&self, pred: F, timeout: Duration) -> bool {
        let deadline = Instant::now() + timeout;
        let mut g = self.inner.lock().unwrap_or_else(|e| e.into_inner());
        loop {
            if pred(&g) {
                return true;
            }
            let now = Instant::now();
            if now >= deadline {
                return false;
            }
            let (ng, _) = self
                .cv
                .wait_timeout(g, deadline - now)
                .unwrap_or_else(|e| e.into_inner());
            g = ng;
        }
    }

    pub fn snapshot(&self) -> Vec<(u32, Rec)> {
        self.inner.lock().unwrap_or_else(|e| e.into_inner()).recs.clone()
    }

    pub fn len(&self) -> usize {
        self.inner.lock().unwrap_or_else(|e| e.into_inner()).recs.len()
    }
}

#[derive(Debug)]
pub struct Recorder {
    log: Arc<RunLog>,
    /// thread index + 1 of the thread that used this recorder (0 = never used)
    used: AtomicU32,
}

impl std::fmt::Debug for RunLog {
    fn fmt(&self, f: &mut std::fmt::Formatter<'_>) -> std::fmt::Result {
        write!(f, "RunLog")
    }
}

impl Recorder {
    pub fn new(log: Arc<RunLog>) -> Recorder {
        Recorder {
            log,
            used: AtomicU32::new(0),
        }
    }
    fn rec(&self, r: Rec) {
        let t = self.log.push(r);
        self.used.store(t + 1, Ordering::Relaxed);
    }
}

impl Drop for Recorder {
    fn drop(&mut self) {
        let u = self.used.load(Ordering::Relaxed);
        if u > 0 {
            let mut g = self.log.inner.lock().unwrap_or_else(|e| e.into_inner());
            g.dropped[(u - 1) as usize] = true;
            drop(g);
            self.log.cv.notify_all();
        }
    }
}

const METHODS: &[&str] = &[
    "microstep",
    "externalQueue.dequeue",
    "internalQueue.dequeue",
    "interpret",
    "mainEventLoop",
];

impl Tracer for Recorder {
    fn trace(&self, _msg: &str) {}
    fn enter(&self) {}
    fn leave(&self) {}
    fn enable_trace(&mut self, _flag: TraceMode) {}
    fn disable_trace(&mut self, _flag: TraceMode) {}
    fn is_trace(&self, _flag: TraceMode) -> bool {
        false
    }
    fn enter_method(&self, what: &str) {
        if METHODS.contains(&what) {
            self.rec(Rec::MEnter(what.to_string()));
            if what == "externalQueue.dequeue" {
                let mut g = self.log.inner.lock().unwrap_or_else(|e| e.into_inner());
                let t = g.tix() as usize;
                g.idle[t] += 1;
                drop(g);
                self.log.cv.notify_all();
            }
        }
    }
    fn exit_method(&self, what: &str) {
        if METHODS.contains(&what) {
            self.rec(Rec::MExit(what.to_string()));
            if what == "interpret" {
                let mut g = self.log.inner.lock().unwrap_or_else(|e| e.into_inner());
                let t = g.tix() as usize;
                g.ended[t] = true;
                drop(g);
                self.log.cv.notify_all();
            }
        }
    }
    fn event_internal_send(&self, what: &Event) {
        self.rec(Rec::ISend(what.name.clone()));
    }
    fn event_internal_received(&self, what: &Event) {
        self.rec(Rec::IRecv(EvInfo::of(what)));
    }
    fn event_external_send(&self, _what: &Event) {}
    fn event_external_received(&mut self, what: &Event) {
        self.rec(Rec::XRecv(EvInfo::of(what)));
    }
    fn trace_state(&self, _what: &str, _s: &State) {}
    fn trace_enter_state(&self, s: &State) {
        self.rec(Rec::Enter(s.name.clone()));
    }
    fn trace_exit_state(&self, s: &State) {
        self.rec(Rec::Exit(s.name.clone()));
    }
    fn trace_argument(&self, _what: &str, _d: &dyn Display) {}
    fn trace_result(&self, what: &str, d: &dyn Display) {
        if what == "enabledTransitions" {
            let s = d.to_string();
            let inner = s.trim_start_matches('[').trim_end_matches(']');
            let v: Vec<u32> = inner
                .split(',')
                .filter(|x| !x.trim().is_empty())
                .filter_map(|x| x.trim().parse().ok())
                .collect();
            self.rec(Rec::Sel(v));
        }
    }
    fn trace_mode(&self) -> TraceMode {
        TraceMode::ALL
    }
}

/// Factory installed process-wide: every `Fsm::new()` (also those of invoked children) gets a
/// recorder attached to the current run's log.
pub struct RecFactory {
    pub current: Arc<Mutex<Option<Arc<RunLog>>>>,
}

impl TracerFactory for RecFactory {
    fn create(&mut self) -> Box<dyn Tracer> {
        let cur = self.current.lock().unwrap_or_else(|e| e.into_inner()).clone();
        match cur {
            Some(l) => Box::new(Recorder::new(l)),
            None => Box::new(Recorder::new(RunLog::new())),
        }
    }
}

/// `mark(a, b, ..)`: records its arguments and a snapshot of the live configuration.
#[derive(Clone)]
pub struct MarkAction {
    pub current: Arc<Mutex<Option<Arc<RunLog>>>>,
}

impl Action for MarkAction {
    fn execute(&self, arguments: &[Data], global: &GlobalData) -> Result<Data, String> {
        let mut args = Vec::with_capacity(arguments.len());
        for a in arguments {
            if let Data::Error(e) = a {
                return Err(format!("mark argument error: {}", e));
            }
            args.push(a.to_string());
        }
        let cfg: Vec<u32> = global.configuration.iterator().cloned().collect();
        let cur = self.current.lock().unwrap_or_else(|e| e.into_inner()).clone();
        if let Some(l) = cur {
            l.push(Rec::Mark {
                args,
                cfg,
                session: global.session_id,
            });
        }
        Ok(Data::Boolean(true))
    }

    fn get_copy(&self) -> Box<dyn Action> {
        Box::new(self.clone())
    }
}

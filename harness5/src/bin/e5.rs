//! E5: BasicHTTP event I/O processor (C20): exhaustive request enumeration against the real rocket
//! route (in-process client) and the real ureq sender over loopback.

use rocket::http::ContentType;
use rocket::local::blocking::Client;
use rufsm::actions::ActionWrapper;
use rufsm::fsm::{self, Event, FinishMode, ScxmlSession};
use rufsm::fsm_executor::FsmExecutor;
use serde_json::{json, Map};
use std::sync::Arc;
use std::time::Duration;
use vh::infra::*;
use vh::rec::*;
use vh::runner::{globals, parse, take_panics};

const NS: &str = "xmlns=\"http://www.w3.org/2005/07/scxml\" version=\"1.0\" datamodel=\"rfsm-expression\"";

fn start(executor: &FsmExecutor, xml: &str, log: &Arc<RunLog>) -> ScxmlSession {
    let g = globals();
    *g.current.lock().unwrap() = Some(log.clone());
    let mut fsm = parse(xml).expect("harness document must parse");
    fsm.tracer = Box::new(Recorder::new(log.clone()));
    let mut actions = ActionWrapper::new();
    actions.add_action("mark", Box::new(MarkAction { current: g.current.clone() }));
    fsm::start_fsm_with_data_and_finish_mode(fsm, actions, Box::new(executor.clone()), &[], FinishMode::KEEP_CONFIGURATION)
}

fn pct(s: &str, plus_for_space: bool) -> String {
    let mut o = String::new();
    for b in s.bytes() {
        match b {
            b'A'..=b'Z' | b'a'..=b'z' | b'0'..=b'9' | b'-' | b'_' | b'.' | b'~' => o.push(b as char),
            b' ' if plus_for_space => o.push('+'),
            _ => o.push_str(&format!("%{:02X}", b)),
        }
    }
    o
}

/// external events received by thread 0 of the log, as (name, sorted params, content)
fn received(log: &RunLog) -> Vec<(String, Vec<(String, String)>, Option<String>)> {
    log.snapshot()
        .iter()
        .filter_map(|(t, r)| match r {
            Rec::XRecv(e) if *t == 0 => {
                let mut p = e.params.clone().unwrap_or_default();
                p.sort();
                Some((e.name.clone(), p, e.content.clone()))
            }
            _ => None,
        })
        .collect()
}

fn wait_processed(log: &RunLog, n_events: usize) -> bool {
    log.wait(
        |i| {
            let x = i.recs.iter().filter(|(t, r)| *t == 0 && matches!(r, Rec::XRecv(_))).count();
            i.threads() > 0 && x >= n_events && i.idle[0] >= x + 1
        },
        Duration::from_secs(10),
    )
}

#[derive(Clone, Debug)]
struct Req {
    session: String,
    name: Option<String>,
    params: Vec<(String, String)>,
    content: Option<String>,
    reversed: bool,
    plus: bool,
}

fn requests(thorough: bool) -> Vec<Req> {
    let names: Vec<&str> = vec!["a", "a b", "a&b", "a=b", "a+b", "100%", "x#y", "\u{e9}", "", "a.b.c", "%41", "a%2", "\u{fc}&=+% #", "_content", "done.invoke.x"];
    let alpha: Vec<&str> = vec!["p", "a b", "x&y", "k=v", "\u{e9}", "+", "%", "#1", ""];
    let mut psets: Vec<Vec<(String, String)>> = vec![vec![]];
    for n in &alpha {
        if n.is_empty() {
            continue;
        }
        for v in &alpha {
            psets.push(vec![(n.to_string(), v.to_string())]);
        }
    }
    let pair_names = [("p", "a b"), ("x&y", "k=v"), ("\u{e9}", "%"), ("+", "#1")];
    for (a, b) in pair_names {
        for (va, vb) in [("1", "2"), ("a b", "x&y"), ("", "\u{e9}")] {
            psets.push(vec![(a.to_string(), va.to_string()), (b.to_string(), vb.to_string())]);
        }
    }
    let contents: Vec<Option<&str>> = vec![None, Some("c"), Some("a b&c=d+e%f#g"), Some("")];
    let mut v = vec![];
    let mut k = 0usize;
    for n in &names {
        for (pi, ps) in psets.iter().enumerate() {
            for c in &contents {
                k += 1;
                // quick tier: every name with every single-parameter set and content variant on a
                // rotating subset; thorough: everything
                if !thorough && (pi + k) % 4 != 0 && pi > 9 {
                    continue;
                }
                for reversed in [false, true] {
                    if reversed && (ps.is_empty() && c.is_none()) {
                        continue;
                    }
                    v.push(Req {
                        session: "valid".into(),
                        name: Some(n.to_string()),
                        params: ps.clone(),
                        content: c.map(|x| x.to_string()),
                        reversed,
                        plus: k % 2 == 0,
                    });
                }
            }
        }
    }
    // invalid ones: unknown / malformed session ids, missing event name
    for sess in ["99999", "abc", "-1", "4294967296", "", "1.5", "0"] {
        for n in [Some("a"), None] {
            for ps in psets.iter().take(3) {
                v.push(Req {
                    session: sess.into(),
                    name: n.map(|x| x.to_string()),
                    params: ps.clone(),
                    content: None,
                    reversed: false,
                    plus: false,
                });
            }
        }
    }
    for ps in psets.iter().take(12) {
        for c in &contents {
            v.push(Req {
                session: "valid".into(),
                name: None,
                params: ps.clone(),
                content: c.map(|x| x.to_string()),
                reversed: false,
                plus: true,
            });
        }
    }
    v
}

fn part_a(ctx: &Ctx, out: &mut WorkerOut) {
    let ex = FsmExecutor::new_without_io_processor();
    let log = RunLog::new();
    let doc = format!(r##"<scxml {ns} name="rx"><state id="s"><transition event="*"><script>mark('got', _event.name)</script></transition></state></scxml>"##, ns = NS);
    let mut sess = start(&ex, &doc, &log);
    let sid = sess.session_id;
    if !wait_processed(&log, 0) {
        out.violation(ctx, "session-start", "http:session-start", "receiver session did not start", json!({"engine":"e5"}));
        return;
    }
    let figment = rocket::Config::figment().merge(("log_level", "off")).merge(("cli_colors", false));
    let rocket = rocket::custom(figment)
        .manage(ex.state.clone())
        .mount("/", rufsm::event_io_processor::http_event_io_processor::verif_routes());
    let client = Client::tracked(rocket).expect("rocket client");
    let mut seen = 0usize;
    for (i, rq) in requests(ctx.thorough()).into_iter().enumerate() {
        let mut fields: Vec<(String, String)> = vec![];
        if let Some(n) = &rq.name {
            fields.push(("_scxmleventname".into(), n.clone()));
        }
        for p in &rq.params {
            fields.push(p.clone());
        }
        if let Some(c) = &rq.content {
            fields.push(("_content".into(), c.clone()));
        }
        if rq.reversed {
            fields.reverse();
        }
        let body: String = fields.iter().map(|(k, v)| format!("{}={}", pct(k, rq.plus), pct(v, rq.plus))).collect::<Vec<_>>().join("&");
        let target = if rq.session == "valid" { sid.to_string() } else { rq.session.clone() };
        let uri = format!("/scxml/{}", target);
        // environment deviation: for a listed subset of the requests another thread holds the executor state (as a
        // starting session or a concurrent request does) at the moment the request arrives; the request has to wait
        // and is then handled like any other
        let hold = i % 29 == 0;
        let holder = if hold {
            let st = ex.state.clone();
            let (tx, rx) = std::sync::mpsc::channel::<()>();
            let h = std::thread::spawn(move || {
                let guard = st.lock();
                let _ = tx.send(());
                std::thread::sleep(Duration::from_millis(100));
                drop(guard);
            });
            let _ = rx.recv();
            Some(h)
        } else {
            None
        };
        let resp = client.post(uri.clone()).header(ContentType::Form).body(body.clone()).dispatch();
        let status = resp.status().code;
        drop(resp);
        if let Some(h) = holder {
            let _ = h.join();
            out.add("requests_while_executor_state_is_held", 1);
        }
        out.add("requests", 1);
        // sentinel: everything the request enqueued is processed before it
        let sentinel = format!("sentinel.{}", i);
        let _ = sess.sender.send(Box::new(Event::new_simple(&sentinel)));
        let all_before = received(&log).len();
        let _ = all_before;
        // wait for the sentinel
        let ok = log.wait(
            |inner| {
                let xs: Vec<&EvInfo> = inner.recs.iter().filter_map(|(t, r)| match r { Rec::XRecv(e) if *t == 0 => Some(e), _ => None }).collect();
                xs.iter().any(|e| e.name == sentinel) && inner.idle[0] >= xs.len() + 1
            },
            Duration::from_secs(10),
        );
        let rec = received(&log);
        let new: Vec<_> = rec[seen..].to_vec();
        seen = rec.len();
        let replay = json!({"engine":"e5","part":"receive","uri": uri, "body": body, "request": format!("{:?}", rq)});
        if !ok {
            out.violation(ctx, "session-stops-responding", "http:receiver-wedged", &format!("after POST {} {:?}", uri, body), replay);
            return;
        }
        let events: Vec<_> = new.iter().filter(|e| e.0 != sentinel).cloned().collect();
        let valid = rq.session == "valid" && rq.name.is_some();
        if valid {
            let mut exp_params = rq.params.clone();
            exp_params.sort();
            let expect = (rq.name.clone().unwrap(), exp_params, rq.content.clone());
            if status != 200 {
                out.violation(ctx, "valid-post-rejected", &format!("http:valid-post-status-{}", status), &format!("POST {} body {:?} answered {}", uri, body, status), replay);
            } else if events.len() != 1 {
                out.violation(ctx, "not-exactly-one-event", &format!("http:events-{}", events.len()), &format!("POST {} body {:?} enqueued {} events: {:?}", uri, body, events.len(), events), replay);
            } else if events[0] != expect {
                let what = if events[0].0 != expect.0 { "name" } else if events[0].1 != expect.1 { "params" } else { "content" };
                out.violation(ctx, "event-differs", &format!("http:event-{}-differs", what), &format!("POST body {:?}: expected event {:?}, session received {:?}", body, expect, events[0]), replay);
            } else {
                out.add("events_delivered", 1);
                out.outcomes.insert(format!("200|{}|{}|{}", expect.1.len(), expect.2.is_some(), rq.reversed));
            }
        } else {
            if status < 400 {
                out.violation(ctx, "invalid-post-accepted", &format!("http:invalid-post-status-{}", status), &format!("POST {} body {:?} (session {:?}, name {:?}) answered {}", uri, body, rq.session, rq.name, status), replay);
            } else if !events.is_empty() {
                out.violation(ctx, "invalid-post-enqueued", "http:invalid-post-enqueued", &format!("POST {} body {:?} answered {} but enqueued {:?}", uri, body, status, events), replay);
            } else {
                out.add("requests_rejected", 1);
                out.outcomes.insert(format!("{}|rejected", status));
            }
        }
        if out.samples.is_empty() && valid && !rq.params.is_empty() {
            out.sample(json!({"uri": uri, "body": body, "status": status, "event": format!("{:?}", events)}));
        }
        if out.violations.len() > 20 {
            break;
        }
    }
    let _ = sess.sender.send(Box::new(Event::new_simple(fsm::EVENT_CANCEL_SESSION)));
    if let Some(h) = sess.thread.take() {
        if h.join().is_err() {
            out.violation(ctx, "session-thread-panicked", "http:receiver-panicked", &format!("{:?}", take_panics()), json!({"engine":"e5"}));
        }
    }
}

fn xml_attr(v: &str) -> String {
    v.replace('&', "&amp;").replace('<', "&lt;").replace('"', "&quot;")
}

/// sending side over real loopback: <send type=basichttp> to the session's own published location
fn part_b(ctx: &Ctx, out: &mut WorkerOut) {
    let rt = tokio::runtime::Builder::new_multi_thread().worker_threads(2).enable_all().build().unwrap();
    let ex = rt.block_on(async { FsmExecutor::new_with_io_processor().await });
    // give the server a moment to bind (launch is spawned)
    std::thread::sleep(Duration::from_millis(300));
    let names: Vec<&str> = vec!["plain", "a b", "a&b", "a=b", "a+b", "100%", "x#y", "\u{e9}.\u{4e2d}", "a.b.c"];
    let values: Vec<(&str, &str)> = vec![("5", "5"), ("2.5", "2.5"), ("'x y'", "x y"), ("true", "true"), ("'a&b=c+d%e#f'", "a&b=c+d%e#f"), ("'\u{e9}'", "\u{e9}"), ("v + 1", "42")];
    let mut cases: Vec<(String, Vec<(String, String, String)>)> = vec![];
    for n in &names {
        cases.push((n.to_string(), vec![]));
        for (e, t) in &values {
            cases.push((n.to_string(), vec![("p".into(), e.to_string(), t.to_string())]));
        }
        cases.push((n.to_string(), vec![("p".into(), "1".into(), "1".into()), ("q r".into(), "'z'".into(), "z".into())]));
        if !ctx.thorough() && cases.len() > 40 {
            break;
        }
    }
    let mut trans = String::new();
    for (i, (n, ps)) in cases.iter().enumerate() {
        let params: String = ps.iter().map(|(pn, pe, _)| format!("<param name=\"{}\" expr=\"{}\"/>", xml_attr(pn), xml_attr(pe))).collect();
        trans.push_str(&format!(
            "<transition event=\"go{}\"><send type=\"http://www.w3.org/TR/scxml/#BasicHTTPEventProcessor\" targetexpr=\"_ioprocessors.basichttp.location\" event=\"{}\">{}</send></transition>\n",
            i,
            xml_attr(n),
            params
        ));
    }
    let doc = format!(
        r##"<scxml {ns} name="tx"><datamodel><data id="v" expr="41"/></datamodel><state id="s">
<onentry><script>mark('location', _ioprocessors.basichttp.location)</script></onentry>
{trans}<transition event="*"><script>mark('got', _event.name)</script></transition></state></scxml>"##,
        ns = NS,
        trans = trans
    );
    let log = RunLog::new();
    let mut sess = start(&ex, &doc, &log);
    let sid = sess.session_id;
    if !wait_processed(&log, 0) {
        out.violation(ctx, "session-start", "http:sender-start", "sender session did not start", json!({"engine":"e5"}));
        return;
    }
    let loc: Vec<String> = log
        .snapshot()
        .iter()
        .filter_map(|(_, r)| match r {
            Rec::Mark { args, .. } if args[0] == "location" => Some(args[1].clone()),
            _ => None,
        })
        .collect();
    let exp_loc = format!("http://localhost:5555/scxml/{}", sid);
    if loc != vec![exp_loc.clone()] {
        out.violation(ctx, "location", "http:location", &format!("_ioprocessors location {:?}, expected {:?}", loc, exp_loc), json!({"engine":"e5"}));
    }
    let mut seen = 0usize;
    for (i, (n, ps)) in cases.iter().enumerate() {
        let _ = sess.sender.send(Box::new(Event::new_simple(&format!("go{}", i))));
        out.add("sends", 1);
        // go<i> and the event that came back over HTTP
        let ok = wait_processed(&log, seen + 2);
        let rec = received(&log);
        let new: Vec<_> = rec[seen..].to_vec();
        seen = rec.len();
        let replay = json!({"engine":"e5","part":"send","event": n, "params": format!("{:?}", ps)});
        let mut exp_params: Vec<(String, String)> = ps.iter().map(|(pn, _, t)| (pn.clone(), t.clone())).collect();
        exp_params.sort();
        let back: Vec<_> = new.iter().filter(|e| !e.0.starts_with("go")).cloned().collect();
        if !ok || back.len() != 1 {
            out.violation(ctx, "http-send-not-delivered", &format!("http:send-delivered-{}", back.len()), &format!("<send type=BasicHTTP event={:?} params {:?}>: {} events arrived: {:?}", n, ps, back.len(), new), replay);
            seen = received(&log).len();
            continue;
        }
        // the textual form: every parameter value of an event that came in over HTTP is a string
        let kinds: Vec<(String, &'static str)> = log
            .snapshot()
            .iter()
            .filter_map(|(t, r)| match r {
                Rec::XRecv(e) if *t == 0 && !e.name.starts_with("go") => Some(e.ptypes.clone()),
                _ => None,
            })
            .last()
            .unwrap_or_default();
        if let Some(bad) = kinds.iter().find(|(_, k)| *k != "String") {
            out.violation(ctx, "http-send-differs", "http:send-param-not-textual", &format!("sent event {:?} params {:?}: parameter {:?} arrived as a {} value, not in its textual form", n, ps, bad.0, bad.1), replay.clone());
        }
        if back[0].0 != *n || back[0].1 != exp_params {
            let what = if back[0].0 != *n { "name" } else { "params" };
            out.violation(ctx, "http-send-differs", &format!("http:send-{}-differs", what), &format!("sent event {:?} params {:?}, received {:?}", n, exp_params, back[0]), replay);
        } else {
            out.add("events_delivered", 1);
            out.outcomes.insert(format!("sent|{}", exp_params.len()));
        }
    }
    let _ = sess.sender.send(Box::new(Event::new_simple(fsm::EVENT_CANCEL_SESSION)));
    if let Some(h) = sess.thread.take() {
        let _ = h.join();
    }
    let mut ex2 = ex.clone();
    ex2.shutdown();
    rt.shutdown_timeout(Duration::from_secs(2));
}

fn main() {
    let ctx = parse_args();
    if ctx.replay.is_some() {
        // requests are independent: the replay re-runs the whole (short) check
        eprintln!("replaying by re-running the check");
    }
    if ctx.worker.is_some() {
        silence_stdout();
        globals();
        let mut out = WorkerOut::default();
        if ctx.worker == Some(0) {
            part_a(&ctx, &mut out);
        } else {
            part_b(&ctx, &mut out);
        }
        out.write(&ctx);
        return;
    }
    // two workers: receive side (in-process client) and send side (real server on port 5555)
    let mut c2 = ctx.clone();
    c2.workers = 2;
    let agg = run_workers(&c2);
    let mut extra = Map::new();
    extra.insert("requests".into(), json!(agg.c("requests")));
    let spec = EvidenceSpec {
        level: "model_checking",
        rule: "receive side: every request of the enumeration (15 event names x parameter sets of size 0-2 over an alphabet that needs URL encoding x _content absent / present x field order x two space encodings, plus unknown, malformed and out-of-range session ids and requests without _scxmleventname) is dispatched to the real rocket route in-process, followed by a sentinel event; exactly the decoded event (or nothing, with an error status) must reach the session. Send side: every (event name, parameter values) case is sent with <send type=BasicHTTP> to the location the session publishes in _ioprocessors over real loopback TCP and must come back with the same name and the textual parameter values",
        assumptions: vec![
            "rocket's form decoder, tokio and ureq are the real ones; their threads are outside any scheduler (concurrent posts are not explored)".into(),
            "the HTTP port 5555 is fixed by rFSM: this check can not run twice at the same time".into(),
            "the event is observed at the interpreter's dequeue (Tracer::event_external_received); its exposure as _event is C09".into(),
        ],
        states_key: "requests",
        transitions_key: "events_delivered",
        validated_key: "events_delivered",
        cap_flags: vec![],
        extra,
    };
    std::process::exit(conclude(&ctx, &agg, spec));
}

#!/bin/bash
# tools/keep_seed.sh <worktree> <name> : keep a re-verified sub-agent change as seeded/<name>/ and remove its scratch worktree
WT=$1; NAME=$2
cd /verif
mkdir -p seeded/$NAME
cp -r $WT/seed_out/patch.diff $WT/seed_out/demo $WT/seed_out/agent_meta.json seeded/$NAME/
git -C /repo apply --check /verif/seeded/$NAME/patch.diff || { echo "patch does not apply to /repo HEAD"; exit 9; }
git -C /repo worktree remove --force $WT
git -C /repo worktree prune
echo kept seeded/$NAME

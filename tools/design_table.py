#!/usr/bin/env python3
"""tools/design_table.py : prints the per-property coverage table of DESIGN.md section 4 from the committed evidence files."""
import json, os

root = os.path.join(os.path.dirname(os.path.abspath(__file__)), '..')
man = json.load(open(os.path.join(root, 'MANIFEST.json')))
eng = {c['property_id']: c['engine'] for c in man['checks']}
print('| id | engine | tier | states | transitions | compared with impl | distinct outcomes | exhaustive (no cap hit) | known findings seen | wall |')
print('|---|---|---|---|---|---|---|---|---|---|')
for c in man['checks']:
    p = c['property_id']
    f = os.path.join(root, c['evidence_file'])
    if not os.path.isfile(f):
        print('| %s | %s | - | no evidence file | | | | | | |' % (p, eng[p]))
        continue
    e = json.load(open(f))
    cov = e.get('coverage', {})
    kf = ', '.join('%s×%d' % (k['signature'], k['occurrences']) for k in cov.get('known_findings_seen', [])) or '-'
    if len(kf) > 90:
        kf = '%d signatures' % len(cov.get('known_findings_seen', []))
    n = lambda k: format(cov.get(k, 0) or cov.get('evaluations', 0), ',').replace(',', ' ')
    print('| %s | %s | %s | %s | %s | %s | %s | %s | %s | %.0f s |' % (
        p, eng[p].upper(), e.get('tier'), n('states'), n('transitions'), n('traces_validated_against_impl'),
        cov.get('distinct_outcomes', '-'), 'yes' if cov.get('exhaustive') else 'NO: %s' % cov.get('caps'), kf, e.get('wall_s', 0)))

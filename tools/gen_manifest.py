#!/usr/bin/env python3
"""Generates /verif/MANIFEST.json from the table below (single source of truth)."""
import json
props = [json.loads(l)['id'] for l in open('/verif/properties.jsonl')]
E1 = "explicit-state model checking of the implementation: BFS over real rFSM sessions, every transition compared with a reference model"
checks = {
 "C01": dict(engine="e1", cat="model_checking",
   text="complete reachable graph of canonical idle states of every generated statechart up to the size bound, every edge executed on the real interpreter; legal-configuration invariants evaluated after start-up and after every microstep",
   note="generated document families only (size bound); observation through public Tracer callbacks and a custom Action; one known finding (W3C-algorithm anomaly with history targets from inside the history's parent)",
   tech="explicit-state model checking of the implementation (BFS over real sessions, invariant checked in every state and microstep)"),
 "C02": dict(engine="e1", cat="model_checking",
   text="every edge of the complete reachable graph of every generated statechart is compared observation by observation with a reference interpreter of the W3C algorithm; re-execution must reproduce the trace",
   note="reference interpreter (harness/src/refint.rs) trusted as the W3C oracle; size-bounded document families", tech=E1),
 "C03": dict(engine="e1", cat="model_checking",
   text="complete reachable graphs of all queue-producing ring documents (trigger x producer menus); internal/eventless/external ordering compared with the reference on every edge; every run replayed with burst delivery",
   note="reference interpreter trusted; thread-schedule dimension of event arrival is E4's (C13)", tech=E1),
 "C06": dict(engine="e1", cat="model_checking",
   text="complete reachable graphs (all recordable history values) of all statecharts with one or two history pseudo-states up to the bound; entry sets, default content and recorded values compared with the reference on every edge",
   note="reference interpreter trusted; known finding for history targeted from inside its parent", tech=E1),
 "C07": dict(engine="e1", cat="model_checking",
   text="complete reachable graphs of all statecharts with final states up to the bound, donedata variants, cancel from every state, burst delivery behind the terminating event; done events, exit content and final configuration compared with the reference",
   note="reference interpreter trusted; done.invoke delivery to a parent is covered by C14", tech=E1),
 "C08": dict(engine="e1", cat="model_checking",
   text="every content leaf kind, every if/elseif/else and foreach structure over conditions {true,false,error} and arrays {[],[x],[x,y],error,non-array} x sub-block menu, single / framed / paired, hosted in six kinds of content position of a skeleton statechart, explored to closure on real sessions; marks, internal events (error.execution, raised events) and data values compared with the reference executor on every edge",
   note="rfsm-expression data model only (ecmascript shares the fixed code paths but is not enumerated); reference executor encodes the error semantics of the property statement", tech=E1),
 "C09": dict(engine="e1", cat="model_checking",
   text="In(x) for every state x evaluated at every content position and in guards of every small statechart (rfsm-expression and null data model) against the reference configuration; early/late binding families; scripted scenarios reading every _event field back for every event kind and attempting every write to the system variables",
   note="ecmascript data model not enumerated (it is not part of the core-feature harness build); _event read-back uses a reference-free oracle (the received event object)", tech=E1),
 "C12": dict(engine="e1", cat="model_checking",
   text="deviation-bounded enumeration: a conformant base document with one oddity at a time (thorough: every ordered pair) from 70 oddities covering unknown/malformed targets and types, missing parent, unstartable invokes and an erroring expression in every attribute that takes one, each driven by 8 external events and then cancelled on a real session; thread alive and idle after every event, required error event class observed, no child thread panic, locks unpoisoned, cancel works",
   note="one base document shape; oddity list is fixed (harness/src/bin/e1.rs oddities()); hang detection by 15 s watchdog",
   tech="deviation-bounded exhaustive enumeration (0, 1, 2 oddities) of documents x event sequence on the real interpreter with a liveness/robustness oracle"),
 "C19": dict(engine="e1", cat="model_checking",
   text="all descriptor lists (1-2 descriptors of 1-2 tokens, all spellings) x all event names of 1-3 tokens over an alphabet with shared prefixes, multi-byte characters, empty tokens and case variants, executed on real sessions and compared with a token-prefix oracle",
   note="alphabet-bounded; matching observed through the selected-transition trace of a parallel probe document",
   tech="bounded-exhaustive enumeration of (descriptor list, event name) pairs on the real interpreter against a reference matcher"),
 "C10": dict(engine="e2", cat="model_checking",
   text="every expression tree up to the operator bound over all 13 binary operators and a typed operand menu, each in three renderings (minimal parentheses spaced / tight, redundant parentheses and whitespace), evaluated fresh and twice through the compilation cache on the real engine; renderings and cache paths must agree and the value must equal the reference evaluator's wherever the language documentation defines it",
   note="reference semantics harness/src/refexpr.rs (precedence table of parser.rs taken as the documented precedence, README operator semantics); operand combinations the documentation does not define are not judged; one data store content",
   tech="bounded-exhaustive enumeration of expression trees on the real engine against a reference evaluator plus metamorphic equalities"),
 "C11": dict(engine="e2", cat="model_checking",
   text="every string up to the length bound over a 24-character alphabet, every token sequence up to the bound over a 48-token alphabet (identifiers bound to all value types incl. aliased and nested values), a nesting-depth ladder and numeric boundary operands, each evaluated on the real engine on a default-stack thread; returns value or error, no panic, no abort, no hang, store unlocked and unpoisoned afterwards",
   note="hang detection by wall-clock watchdog; process isolation detects aborts; one known finding (stack overflow at nesting depth 4096 of array literals)",
   tech="bounded-exhaustive enumeration of inputs (all strings / token sequences up to a length) on the real engine with a totality oracle"),
 "C04": dict(engine="e3", cat="model_checking",
   text="corpus enumerated per dimension (all kinded state trees up to the bound with all candidate transitions, every content leaf in every host, every if/elseif/else/foreach nesting structure up to the depth bound, attribute combinations of send/invoke/data/donedata/cancel/descriptors, texts needing escapes); each document parsed by the real reader and its canonical model dump compared with the model expected from the tree, then re-rendered in 10 lexical styles plus an XInclude split whose models must be identical",
   note="expected-model builder harness/src/expect.rs is the oracle for what a document means; quick-xml trusted",
   tech="bounded-exhaustive enumeration of document trees x lexical renderings on the real reader against an expected-model builder and metamorphic rendering equality"),
 "C05": dict(engine="e3", cat="model_checking",
   text="primitive layer exhaustively at and below every width boundary (all u64 below 2^16/2^20 and around every power of two, every string byte length 0..4200 x character classes, multi-byte characters at every offset around the length-prefix boundaries, nested data values), canonical dump equality after write/read for every corpus document, and the reloaded machine of every small statechart explored to closure against the reference interpreter",
   note="behavioural equality is established transitively through the reference interpreter (C02 covers the original machine on the same families)",
   tech="bounded-exhaustive enumeration of values and models through the real writer/reader, plus explicit-state exploration of the reloaded machine against the reference model"),
 "C18": dict(engine="e3", cat="fault_enumeration",
   text="every proper prefix of every corpus image fed to the real reader (must be Err, never Ok, never panic), and every write call of the serializer failed / shortened / refused in turn plus a failing flush (writer must report or the sink must hold the complete image)",
   note="prefix cuts only (no bit flips); in-memory sink with injected faults",
   tech="exhaustive enumeration of crash points (all prefixes) and fault positions (all write calls x fault modes) on the real reader/writer"),
 "C13": dict(engine="e4", cat="model_checking",
   text="real session, host threads and a sibling session run under a controlled scheduler; every schedule with at most 2 (thorough 3) preemptions is executed; per execution: processed multiset = sent multiset, per-sender order preserved, no record of another macrostep between an event's dequeue and the end of its macrostep",
   note="three scenarios (2 hosts x 2 events through the queue sender; host through the executor + sibling session through <send>; host through the executor while another host starts a session); scheduling points at sync operations only",
   tech="stateless model checking of the implementation under a controlled scheduler (CHESS style): exhaustive enumeration of thread interleavings up to a preemption bound by re-execution"),
 "C17": dict(engine="e4", cat="model_checking",
   text="five topologies (invoke vs own delayed send, mutual send while invoking, shutdown vs send, session start vs send, cancel during invoke) explored over all schedules up to the preemption bound on the real code; a terminal state with a thread waiting for a mutex is reported with the wait-for cycle and a replayable schedule",
   note="topologies of at most 3 sessions plus timers; preemption bound 1 (quick) / 2 (thorough); locks used by one thread only are not preemption points",
   tech="stateless model checking of the implementation under a controlled scheduler (CHESS style): exhaustive enumeration of thread interleavings up to a preemption bound by re-execution"),
}
na_reason = {}
m = {
 "version": 1,
 "setup_cmd": "cd /verif && ./check --setup",
 "hooks": {
   "guard": "rufsm_verif",
   "enable": "RUSTFLAGS=\"--cfg rufsm_verif -A unexpected_cfgs\" with CARGO_TARGET_DIR=/verif/target-hooks (checks of engine e4/e5 only)",
   "baseline_off_cmd": "cd /repo && cargo nextest run --workspace --no-fail-fast --offline || cargo test --workspace --no-fail-fast --offline",
   "source_commits": ["22d07fd"],
   "add_only": True},
 "engines": [
   {"name": "e1", "path": "harness/src/bin/e1.rs", "serves_properties": [p for p in checks if checks[p]['engine']=='e1'],
    "kind_free_text": "explicit-state search over real rFSM sessions (one session, harness-paced at the idle point), reference SCXML interpreter as oracle"},
   {"name": "e2", "path": "harness/src/bin/e2.rs", "serves_properties": [p for p in checks if checks[p]['engine']=='e2'],
    "kind_free_text": "bounded-exhaustive enumeration of characters / tokens / expression trees against the real expression engine, process-isolated workers with crash and hang recovery"},
   {"name": "e3", "path": "harness/src/bin/e3.rs", "serves_properties": [p for p in checks if checks[p]['engine']=='e3'],
    "kind_free_text": "bounded-exhaustive enumeration of document trees, lexical renderings, primitive values, image prefixes and write-fault positions against the real reader / serializer"},
   {"name": "e4", "path": "harness/src/bin/e4.rs", "serves_properties": [p for p in checks if checks[p]['engine']=='e4'],
    "kind_free_text": "controlled scheduler over real OS threads (harness/src/sched.rs) driving real rFSM sessions through the rufsm_verif hooks; iterative preemption bounding, virtual timer, deadlock detection, replayable schedules"}],
 "checks": [], "not_applicable": [], "notes": "see DESIGN.md; known findings in known_findings.json"}
for p in props:
    if p in checks:
        c = checks[p]
        m["checks"].append({
          "property_id": p, "quick_cmd": f"./check {p} --tier quick", "thorough_cmd": f"./check {p} --tier thorough",
          "evidence_file": f"evidence/{p}.json", "replay_cmd_template": f"./check {p} --replay {{path}}",
          "engine": c['engine'],
          "level_claimed": {"category": c['cat'], "text": c['text'], "design_ref": f"DESIGN.md section 4 {p}"},
          "level_note": c['note'], "technique": c['tech']})
    else:
        m["not_applicable"].append({"property_id": p, "reason": na_reason.get(p, "check not built yet in this round (see DESIGN.md build order)")})
json.dump(m, open('/verif/MANIFEST.json','w'), indent=1)

#!/bin/bash
# tools/seedcheck.sh <seeded-name> [--tier quick|thorough] <PROP>...   apply seeded/<name>/patch.diff to /repo, run the checks, revert
cd /verif
NAME=$1; shift
TIER=quick
if [ "$1" = "--tier" ]; then TIER=$2; shift 2; fi
if ! git -C /repo diff --quiet; then echo "/repo has uncommitted changes"; exit 9; fi
git -C /repo apply /verif/seeded/$NAME/patch.diff || exit 9
trap 'git -C /repo checkout -- .' EXIT
for P in "$@"; do
  s=$(date +%s)
  out=$(./check $P --tier $TIER 2>&1); rc=$?
  e=$(date +%s)
  nv=$(echo "$out" | grep -c "^VIOLATION")
  echo "seed=$NAME check=$P tier=$TIER rc=$rc violations=$nv secs=$((e-s))"
  echo "$out" | grep -A2 "^VIOLATION" | head -8 | cut -c1-300
done

#!/bin/bash
# tools/seedcheck.sh <seeded-name> [--tier quick|thorough] <PROP>...
#   apply seeded/<name>/patch.diff to /repo, run the checks, revert; one result line per check is
#   appended to seeded/<name>/checks.log (read by tools/seed_meta.py)
cd /verif
NAME=$1; shift
TIER=quick
if [ "$1" = "--tier" ]; then TIER=$2; shift 2; fi
if ! git -C /repo diff --quiet; then echo "/repo has uncommitted changes"; exit 9; fi
# evidence/ and replays/ must only ever hold results from the unchanged tree: save and restore them
SAVE=$(mktemp -d /verif/scratch/seedsave.XXXXXX); cp -a evidence replays $SAVE/
git -C /repo apply /verif/seeded/$NAME/patch.diff || exit 9
mkdir -p seeded/$NAME/replays
restore() { git -C /repo checkout -- .; rm -rf /verif/evidence /verif/replays; mv $SAVE/evidence $SAVE/replays /verif/; rmdir $SAVE; }
trap restore EXIT
for P in "$@"; do
  s=$(date +%s)
  out=$(./check $P --tier $TIER 2>&1); rc=$?
  e=$(date +%s)
  nv=$(echo "$out" | grep -c "^VIOLATION")
  first=$(echo "$out" | grep -m1 "^VIOLATION" | cut -c1-160)
  line="seed=$NAME check=$P tier=$TIER rc=$rc violations=$nv secs=$((e-s)) verif_commit=$(git rev-parse --short HEAD)"
  echo "$line"
  echo "$line" >> seeded/$NAME/checks.log
  echo "$out" | grep -A2 "^VIOLATION" | head -8 | cut -c1-300
  [ $rc -eq 2 ] && echo "$out" | tail -12
  # keep the first counterexample found against this seed (a replayable artefact)
  r=$(echo "$out" | grep -m1 "^VIOLATION" | sed -n 's/.*replay=\([^ ]*\).*/\1/p')
  [ -n "$r" ] && [ -f "$r" ] && cp "$r" seeded/$NAME/replays/${P}_$(basename $r)
done

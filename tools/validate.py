#!/opt/veriftools/pyvenv/bin/python
import json, jsonschema, glob, sys
m = json.load(open('/verif/MANIFEST.json'))
jsonschema.validate(m, json.load(open('/root/.vp/MANIFEST.schema.json')))
es = json.load(open('/root/.vp/EVIDENCE.schema.json'))
bad = 0
for c in m['checks']:
    p = '/verif/' + c['evidence_file']
    try:
        e = json.load(open(p))
        jsonschema.validate(e, es)
        print('ok ', p, e['tier'], e['level'], 'violations', e.get('violations'))
    except Exception as ex:
        bad += 1
        print('BAD', p, str(ex)[:200])
props = [json.loads(l)['id'] for l in open('/verif/properties.jsonl')]
claimed = {c['property_id'] for c in m['checks']}
na = {c['property_id'] for c in m.get('not_applicable', [])}
for p in props:
    if p not in claimed and p not in na: print('UNLISTED', p); bad += 1
    if p in claimed and p in na: print('BOTH', p); bad += 1
sys.exit(1 if bad else 0)

#!/bin/bash
# tools/verify_seed.sh <worktree> : re-verify a sub-agent's seeded change in its scratch worktree:
#   with the change: existing suite green + demo fails; without: demo passes. Prints a summary; leaves src original.
WT=$1; OUT=$WT/seed_out
export CARGO_TARGET_DIR=$WT/target CARGO_NET_OFFLINE=true
cd $WT || exit 9
git checkout -q -- src; rm -rf tests/seed_demo_*.rs
DEMO=$(ls $OUT/demo/*.rs | head -1); NAME=seed_demo_$(basename $DEMO .rs)
mkdir -p tests; cp $DEMO tests/$NAME.rs
echo "== original: demo"; cargo test --offline --test $NAME -- --test-threads=1 2>&1 | grep -E "^test |test result" | tail -12; 
git apply $OUT/patch.diff || { echo APPLY-FAILED; exit 9; }
echo "== changed: demo"; cargo test --offline --test $NAME -- --test-threads=1 2>&1 | grep -E "^test |test result" | tail -12
rm -f tests/$NAME.rs; rmdir tests 2>/dev/null
echo "== changed: suite"; (cargo nextest run --workspace --no-fail-fast --offline 2>&1 || cargo test --workspace --no-fail-fast --offline 2>&1) | grep -E "Summary|test result|FAIL|failed" | tail -8
echo "== changed: hooks-on check"; RUSTFLAGS="--cfg rufsm_verif -A unexpected_cfgs" CARGO_TARGET_DIR=$WT/target/verifcfg cargo check --offline --lib 2>&1 | tail -2
git checkout -q -- src

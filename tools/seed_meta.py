#!/usr/bin/env python3
"""tools/seed_meta.py : (re)write seeded/<name>/meta.json from agent_meta.json + checks.log and print the
DESIGN.md table (section 7.3). checks.log lines are appended by tools/seedcheck.sh; the latest line per
(check, tier) wins."""
import json, os, re, sys

root = os.path.join(os.path.dirname(os.path.abspath(__file__)), '..', 'seeded')
rows = []
for name in sorted(os.listdir(root)):
    d = os.path.join(root, name)
    am = os.path.join(d, 'agent_meta.json')
    if not os.path.isfile(am):
        continue
    a = json.load(open(am))
    latest = {}
    first_detect = {}
    log = os.path.join(d, 'checks.log')
    if os.path.isfile(log):
        for line in open(log):
            kv = dict(x.split('=', 1) for x in line.split() if '=' in x)
            if 'check' not in kv:
                continue
            key = (kv['check'], kv.get('tier', 'quick'))
            latest[key] = kv
            if kv.get('rc') == '1' and key not in first_detect:
                first_detect[key] = kv.get('verif_commit')
    detected = sorted({k[0] + ('' if k[1] == 'quick' else ' (thorough)') for k, v in latest.items() if v.get('rc') == '1'})
    missed = sorted({k[0] + ('' if k[1] == 'quick' else ' (thorough)') for k, v in latest.items() if v.get('rc') == '0'})
    history = []
    if os.path.isfile(log):
        for line in open(log):
            history.append(line.strip())
    status_file = os.path.join(d, 'STATUS')
    status = open(status_file).read().strip() if os.path.isfile(status_file) else 'active'
    demo = sorted(os.listdir(os.path.join(d, 'demo'))) if os.path.isdir(os.path.join(d, 'demo')) else []
    meta = {
        'name': name,
        'property': a.get('property'),
        'status': status,
        'what_changed': a.get('summary'),
        'needs_to_manifest': a.get('needs_to_manifest'),
        'written_by': 'independent sub-agent that was given only the property text and a scratch worktree of /repo',
        'agent_verification': a.get('how_verified'),
        'reverified': 'tools/verify_seed.sh in the scratch worktree: demo passes on the original source, fails with patch.diff applied; '
                      'the 57 pinned tests pass with the patch; the hooks-on build (--cfg rufsm_verif) compiles with it',
        'demo_files': demo,
        'checks_run': ['tools/seedcheck.sh %s %s' % (name, ' '.join(sorted({k[0] for k in latest})))] if latest else [],
        'detected_by': detected,
        'not_detected_by': missed,
        'check_history': history,
    }
    json.dump(meta, open(os.path.join(d, 'meta.json'), 'w'), indent=1, ensure_ascii=False)
    rows.append(meta)

if '--table' in sys.argv:
    print('| seed | property | what it needs to manifest | detected by (quick tier unless stated) | not detected by |')
    print('|---|---|---|---|---|')
    for m in rows:
        need = (m['needs_to_manifest'] or '').replace('\n', ' ').replace('|', '/')
        if len(need) > 170:
            need = need[:167] + '...'
        st = '' if m['status'] == 'active' else ' (%s)' % m['status'].split(':')[0]
        print('| %s%s | %s | %s | %s | %s |' % (m['name'], st, m['property'], need, ', '.join(m['detected_by']) or '-', ', '.join(m['not_detected_by']) or '-'))

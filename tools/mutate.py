#!/usr/bin/env python3
"""Apply a textual mutation to /repo (working tree), run checks, revert.
usage: mutate.py <file> <old> <new> <PROP> [<PROP>...]   (old must occur exactly once unless --nth k is given)
"""
import subprocess, sys
args = sys.argv[1:]
nth = None
if args[0] == '--nth':
    nth = int(args[1]); args = args[2:]
f, old, new = args[0], args[1], args[2]
props = args[3:]
p = '/repo/' + f
s = open(p).read()
c = s.count(old)
if nth is None and c != 1:
    print('pattern count', c); sys.exit(3)
if nth is None:
    s2 = s.replace(old, new)
else:
    parts = s.split(old)
    s2 = old.join(parts[:nth+1]) + new + old.join(parts[nth+1:])
open(p, 'w').write(s2)
try:
    for pr in props:
        r = subprocess.run(['/verif/check', pr, '--tier', 'quick'], capture_output=True, text=True)
        out = r.stdout.strip().splitlines()
        print(f'== {pr}: rc={r.returncode}')
        for l in out[:6]:
            print('   ', l[:260])
finally:
    subprocess.run(['git', '-C', '/repo', 'checkout', '--', f])

#!/usr/bin/env python3
"""merge_slice.py <evidence/<id>.json> <slice.json> <slice name>
Folds the evidence of a second run of the same check (another build flavour, e.g. the ecmascript
slice of C08/C09 which needs the full-feature build) into the check's evidence file: counts are
added, exhaustive is the conjunction, the slice's own coverage is kept under coverage.slices."""
import json, sys
main_p, slice_p, name = sys.argv[1:4]
m = json.load(open(main_p)); s = json.load(open(slice_p))
mc, sc = m["coverage"], s["coverage"]
for k in ("evaluations", "distinct_nontrivial", "states", "transitions", "traces_validated_against_impl"):
    if k in sc:
        mc[k] = mc.get(k, 0) + sc[k]
mc["exhaustive"] = bool(mc.get("exhaustive")) and bool(sc.get("exhaustive"))
mc["known_findings_seen"] = list(mc.get("known_findings_seen", [])) + list(sc.get("known_findings_seen", []))
mc["samples"] = list(mc.get("samples", [])) + list(sc.get("samples", []))[:2]
mc.setdefault("slices", {})[name] = {k: sc[k] for k in sc if k != "samples"} | {"wall_s": s["wall_s"], "violations": s.get("violations", 0)}
mc["rule"] = mc.get("rule", "") + " || slice " + name + ": " + sc.get("rule", "")
m["wall_s"] = m["wall_s"] + s["wall_s"]
m["violations"] = m.get("violations", 0) + s.get("violations", 0)
for a in s.get("assumptions", []):
    if a not in m.setdefault("assumptions", []):
        m["assumptions"].append(a)
json.dump(m, open(main_p, "w"), indent=1)
